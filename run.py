#!/venv/bin/python
# -*- coding: utf-8 -*-
"""CLI of the verification kit.

  run.py <Cnn> [--tier quick|thorough]      decide one property on /repo's working tree
  run.py replay <replay.json>               re-execute one recorded violation, no search
  run.py selftest                           litmus tests of the explorers themselves
  run.py all [--tier ...]                   every claimed check, sequentially (convenience)

Exit codes: 0 property held on everything explored (KNOWN-FINDING lines allowed); 1 at least one
`VIOLATION property=<id> replay=<path>` line; 2 harness error (never used to hide a violation).
"""
import argparse
import importlib
import json
import os
import sys
import time
import traceback

sys.dont_write_bytecode = True
import faulthandler, signal
faulthandler.register(signal.SIGUSR1, all_threads=True)
HERE = os.path.dirname(os.path.abspath(__file__))
sys.path.insert(0, HERE)

from vk import core  # noqa: E402


def load_check(prop):
    return importlib.import_module(f"checks.{prop.lower()}")


def run_check(prop, tier, seed):
    started = time.time()
    core.bind_repo()
    mod = load_check(prop)
    report = core.Report(prop)
    extra = mod.run(report, tier, seed) or {}
    level_keys = extra.pop("_level_keys", None)
    return core.finish(report, tier, seed, mod.LEVEL, mod.RULE, started,
                       list(mod.ASSUMPTIONS), extra=extra, level_keys=level_keys)


def main(argv):
    ap = argparse.ArgumentParser()
    ap.add_argument("what")
    ap.add_argument("path", nargs="?")
    ap.add_argument("--tier", default=os.environ.get("VERIF_TIER", "quick"),
                    choices=["quick", "thorough"])
    args = ap.parse_args(argv)
    seed = int(os.environ.get("VERIF_SEED", "0") or 0)

    try:
        if args.what == "replay":
            with open(args.path) as f:
                art = json.load(f)
            core.bind_repo()
            mod = load_check(art["property"])
            still = mod.replay(art["witness"])
            print(f"replay of {art['signature']}: "
                  f"{'STILL FAILS' if still else 'no longer fails'}")
            return 1 if still else 0
        if args.what == "selftest":
            from vk import selftest
            return selftest.main()
        if args.what == "all":
            with open(os.path.join(HERE, "MANIFEST.json")) as f:
                man = json.load(f)
            rc = 0
            for chk in man["checks"]:
                r = os.system(f"cd {HERE} && PYTHONHASHSEED=0 /venv/bin/python run.py "
                              f"{chk['property_id']} --tier {args.tier}")
                rc = max(rc, r >> 8)
            return rc
        prop = args.what.upper()
        return run_check(prop, args.tier, seed)
    except core.HarnessError as e:
        print(f"HARNESS-ERROR: {e}", file=sys.stderr)
        return 2
    except BaseException:
        print("HARNESS-ERROR: " + traceback.format_exc(), file=sys.stderr)
        return 2


if __name__ == "__main__":
    sys.exit(main(sys.argv[1:]))
