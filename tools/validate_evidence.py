#!/usr/bin/env python3-vt
import json, sys, glob, jsonschema
schema = json.load(open('/root/.vp/EVIDENCE.schema.json'))
bad = 0
for p in sorted(glob.glob('/verif/evidence/*.json')):
    try:
        jsonschema.validate(json.load(open(p)), schema)
        print('ok ', p)
    except Exception as e:
        bad += 1
        print('BAD', p, str(e)[:300])
sys.exit(1 if bad else 0)
