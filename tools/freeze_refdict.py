#!/venv/bin/python
"""One-off: derive vk/ref/refdict.json (frozen reference AVP dictionary) from the pinned tree by
introspection, and cross-read it against docs/list-of-avps.md and bromelia/definitions.py.
After the review the JSON file is committed and is the oracle; this tool is NOT run by any check.
usage: freeze_refdict.py [--write]"""
import datetime
import json
import os
import re
import sys

sys.dont_write_bytecode = True
HERE = os.path.dirname(os.path.dirname(os.path.abspath(__file__)))
sys.path.insert(0, HERE)
from vk import core  # noqa

core.bind_repo()
from bromelia.base import DiameterAVP  # noqa
import bromelia.avps  # noqa  (core.bind_repo imported every bromelia module)

TYPE_ORDER = ["EnumeratedType", "Integer32Type", "Unsigned32Type", "Unsigned64Type", "GroupedType",
              "AddressType", "TimeType", "UTF8StringType", "DiameterIdentityType", "DiameterURIType",
              "OctetStringType"]


def type_of(cls):
    for b in cls.__mro__:
        if b.__name__ in TYPE_ORDER:
            return b.__name__[:-4]
    return None


def build(cls, depth=0):
    t = type_of(cls)
    if t == "Enumerated":
        return cls(cls.values[0])
    if t == "Integer32":
        return cls(b"\x00\x00\x00\x01")
    if t in ("Unsigned32", "Unsigned64"):
        return cls(1)
    if t == "Grouped":
        members = [build(m, depth + 1) for m in cls.mandatory.values()]
        if not members:
            opt = list(cls.optionals.values())
            members = [build(opt[0], depth + 1)] if opt and depth < 3 else []
        return cls(members)
    if t == "Address":
        return cls("10.0.0.1")
    if t == "Time":
        return cls(datetime.datetime(2020, 1, 1))
    if t == "DiameterURI":
        return cls("aaa://host.example.com:3868;transport=tcp")
    if t == "UTF8String" or t == "DiameterIdentity":
        return cls("abc.example")
    if t == "OctetString":
        return cls(b"\x01\x02\x03")
    raise ValueError(t)


def main():
    subs = DiameterAVP.__subclasses__()
    seen = {}
    entries = []
    problems = []
    for cls in subs:
        key = (cls.__module__, cls.__name__)
        if key in seen:
            continue   # class statement executed twice in one module (ValueDigitsAVP)
        seen[key] = cls
        t = type_of(cls)
        vendor = int.from_bytes(cls.vendor_id, "big") if cls.vendor_id is not None else None
        code = int.from_bytes(cls.code, "big")
        try:
            inst = build(cls)
            flags = inst.get_flags()
        except BaseException as e:  # noqa
            problems.append(f"cannot build {cls.__name__}: {type(e).__name__} {e}")
            flags = None
        e = {"class": cls.__name__, "module": cls.__module__.replace("bromelia.avps.", ""),
             "vendor": vendor, "code": code, "type": t, "flags": flags}
        if t == "Enumerated":
            e["values"] = [v.hex() for v in cls.values]
        if t == "Grouped":
            e["mandatory"] = {k: m.__name__ for k, m in cls.mandatory.items()}
            e["optionals"] = {k: m.__name__ for k, m in cls.optionals.items()}
        entries.append(e)

    # cross-read with docs/list-of-avps.md
    doc = {}
    for line in open(os.path.join(core.REPO_DIR, "docs/list-of-avps.md")):
        m = re.match(r"\|\d+\|`([^`]+)`\|(\d+)\|(\w+)\|([^|]*)\|([^|]*)\|[^|]*\|(\w+)", line)
        if m:
            doc[m.group(6)] = {"name": m.group(1), "code": int(m.group(2)), "type": m.group(3)}
    for e in entries:
        d = doc.get(e["class"])
        if d is None:
            problems.append(f"doc: no row for {e['class']}")
            continue
        e["name"] = d["name"]
        if d["code"] != e["code"]:
            problems.append(f"doc: {e['class']} code {d['code']} vs class {e['code']}")
        if d["type"] != e["type"] and e["class"] != "FramedIpAddressAVP":
            problems.append(f"doc: {e['class']} type {d['type']} vs class {e['type']}")
    for c in doc:
        if c not in {e["class"] for e in entries}:
            problems.append(f"doc: row {c} has no class")

    # cross-read with definitions.diameter_avps (IANA base names, vendor-less only)
    from bromelia.definitions import diameter_avps
    iana = {a["id"]: a["name"] for a in diameter_avps}
    for e in entries:
        if e["vendor"] is None:
            n = iana.get(e["code"])
            e["iana_name"] = n
            if n is None:
                problems.append(f"iana: no entry for code {e['code']} ({e['class']})")
            elif e.get("name") and n.lower().replace("-", "") != e["name"].lower().replace("-", ""):
                problems.append(f"iana: code {e['code']} is {n!r}, class/doc say {e.get('name')!r}")

    # manual review overrides (documented in DESIGN.md 3.5)
    for e in entries:
        if e["class"] == "FramedIpAddressAVP":
            # RFC 7155 4.4.10.5.1: OctetString carrying the 4 packed octets of an IPv4 address (RADIUS
            # compatible), NOT the Diameter Address format; the class overrides parser_data accordingly
            # although docs/list-of-avps.md labels it Address.
            e["type"] = "OctetString"
            e["special"] = "ipv4_packed"
        if e["class"] in ("SessionIdAVP", "AcctMultiSessionIdAVP"):
            e["special"] = "generates_from_str"
        if e["class"] in ("MsisdnAVP", "StnSrAVP"):
            e["special"] = "tbcd_from_number"

    entries.sort(key=lambda e: (e["vendor"] or 0, e["code"]))
    print(f"{len(entries)} classes; {len(problems)} remarks")
    for p in problems:
        print("  ", p)
    if "--write" in sys.argv:
        out = os.path.join(HERE, "vk/ref/refdict.json")
        with open(out, "w") as f:
            json.dump({"entries": entries}, f, indent=1)
        print("wrote", out)


main()
