#!/venv/bin/python
"""usage: set_history.py <seed-name> <text>   - records how a seeded change came to be detected."""
import json, sys
p = f"/verif/seeded/{sys.argv[1]}/meta.json"
m = json.load(open(p)); m["history"] = sys.argv[2]; json.dump(m, open(p, "w"), indent=1)
