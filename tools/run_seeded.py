#!/venv/bin/python
"""Confirm and evaluate the seeded property-breaking changes under /verif/seeded/<name>/.

For each directory holding patch.diff, demo.py and meta.json:
  1. demo.py on the unchanged /repo must exit 0;
  2. the patch must apply to a scratch worktree of /repo's HEAD (under /tmp, removed afterwards);
  3. demo.py on the patched worktree must exit 1;
  4. (--suite) the pinned suite must still pass on the patched worktree;
  5. the check(s) of the property (meta.property, plus meta.also) are run against the patched worktree
     (VERIF_REPO) in the quick tier (and thorough with --thorough when quick misses).
Results are written back into meta.json under "verified". Nothing is ever applied to /repo itself.
usage: run_seeded.py [--suite] [--thorough] [name ...]
"""
import json
import os
import shutil
import subprocess
import sys
import tempfile

SEEDED = "/verif/seeded"


def run(cmd, **kw):
    return subprocess.run(cmd, capture_output=True, text=True, **kw)


def main():
    args = sys.argv[1:]
    suite = "--suite" in args
    thorough = "--thorough" in args
    names = [a for a in args if not a.startswith("--")] or sorted(os.listdir(SEEDED))
    rc = 0
    for name in names:
        d = os.path.join(SEEDED, name)
        if not os.path.exists(os.path.join(d, "patch.diff")):
            continue
        meta = json.load(open(os.path.join(d, "meta.json")))
        if meta.get("retired"):
            print(f"{name}: retired - {meta['retired'][:120]}")
            continue
        res = {}
        if not suite:
            # keep the record of an earlier --suite run (the suite is only re-run on request)
            for k in ("suite_passes", "suite_line"):
                if k in meta.get("verified", {}):
                    res[k] = meta["verified"][k]
        r = run(["/venv/bin/python", os.path.join(d, "demo.py"), "/repo"])
        res["demo_on_unchanged"] = r.returncode
        wt = tempfile.mkdtemp(prefix="verif_seed_", dir="/tmp")
        os.rmdir(wt)
        subprocess.run(["git", "-C", "/repo", "worktree", "add", "--detach", "-q", wt, "HEAD"], check=True)
        try:
            r = run(["git", "-C", wt, "apply", os.path.join(d, "patch.diff")])
            res["applies"] = r.returncode == 0
            if r.returncode:
                res["apply_error"] = r.stderr[-300:]
            else:
                r = run(["/venv/bin/python", os.path.join(d, "demo.py"), wt])
                res["demo_on_patched"] = r.returncode
                res["demo_output"] = (r.stdout + r.stderr)[-300:]
                if suite:
                    r = run(["/venv/bin/python", "/verif/tools/baseline.py", wt])
                    res["suite_passes"] = r.returncode == 0
                    res["suite_line"] = r.stdout.strip().splitlines()[-1] if r.stdout.strip() else ""
                env = dict(os.environ, VERIF_REPO=wt, PYTHONHASHSEED="0", VERIF_EVIDENCE_DIR=wt + "/.verif_evidence",
                           VERIF_REPLAY_DIR=wt + "/.verif_replays")
                res["checks"] = {}
                for c in [meta["property"]] + list(meta.get("also", [])):
                    for tier in (["quick", "thorough"] if thorough else ["quick"]):
                        r = run(["/venv/bin/python", "/verif/run.py", c, "--tier", tier], env=env, cwd="/verif")
                        sigs = [l.strip()[10:150] for l in r.stdout.splitlines() if l.startswith("  signature=")]
                        res["checks"][f"{c}:{tier}"] = {"exit": r.returncode, "signatures": sigs[:4]}
                        if r.returncode == 1:
                            break
        finally:
            subprocess.run(["git", "-C", "/repo", "worktree", "remove", "--force", wt])
            shutil.rmtree(wt, ignore_errors=True)
        detected = [k for k, v in res.get("checks", {}).items() if v["exit"] == 1]
        res["detected_by"] = detected
        meta["verified"] = res
        json.dump(meta, open(os.path.join(d, "meta.json"), "w"), indent=1)
        ok = res.get("demo_on_unchanged") == 0 and res.get("demo_on_patched") == 1
        print(f"{name}: applies={res.get('applies')} demo(unchanged)={res.get('demo_on_unchanged')} "
              f"demo(patched)={res.get('demo_on_patched')} suite={res.get('suite_passes')} detected_by={detected} "
              f"{'' if ok else '<-- demonstration not confirmed'}")
        for k, v in res.get("checks", {}).items():
            for s in v["signatures"][:2]:
                print("     ", k, s)
        if not detected:
            rc = 1
    return rc


if __name__ == "__main__":
    sys.exit(main())
