#!/venv/bin/python
"""Regenerates section 12 of DESIGN.md (seeded changes and which check catches each) from seeded/*/meta.json."""
import glob, json, os
HERE = os.path.dirname(os.path.dirname(os.path.abspath(__file__)))
rows = []
for f in sorted(glob.glob(os.path.join(HERE, "seeded", "*", "meta.json"))):
    m = json.load(open(f)); name = os.path.basename(os.path.dirname(f)); v = m.get("verified", {})
    det = ", ".join(v.get("detected_by", [])) or "**MISSED**"
    if m.get("retired"):
        rows.append(f"| {name} | {m['property']} | {m['summary'].replace('|', '/')} | {m['needs'].replace('|', '/')[:300]} | retired | "
                    f"(was: {det}) | {m.get('history', 'detected on the first run')} RETIRED: {m['retired']} |")
        continue
    sigs = []
    for k, c in v.get("checks", {}).items():
        sigs += [s.split(" occurrences")[0] for s in c.get("signatures", [])[:1]]
    conf = "demo 0/1 " + ("ok" if (v.get("demo_on_unchanged") == 0 and v.get("demo_on_patched") == 1) else "NOT CONFIRMED")
    conf += ", suite " + {True: "passes", False: "FAILS", None: "n/a"}[v.get("suite_passes")]
    rows.append(f"| {name} | {m['property']} | {m['summary'].replace('|', '/')} | {m['needs'].replace('|', '/')[:300]} | {conf} | {det} {('`' + sigs[0] + '`') if sigs else ''} | {m.get('history', 'detected on the first run')} |")
text = f"""## 12. Seeded property-breaking changes

Each directory `seeded/<name>/` holds `patch.diff`, a demonstration `demo.py` (exit 0 on the unchanged library, 1 with
the change) and `meta.json` (what it breaks, what it needs to manifest, what was run). All were written by fresh
sub-agents that saw only the property text and a scratch worktree; each was confirmed by `tools/run_seeded.py --suite`
(demo both ways, pinned suite still 1638/1638 with the change, checks run against the patched scratch worktree via
`VERIF_REPO`). None is ever applied to /repo. {len(rows)} changes ({sum('| retired |' in r for r in rows)} retired because a later repair of the library made the change harmless), {sum('MISSED' not in r.split('|')[6] and '| retired |' not in r for r in rows)} of the others detected by the quick tier of the property's own check. The `history` column says what had to be strengthened when a change was first missed.

| name | property | change | needs | confirmation | detected by (first signature) | history |
|---|---|---|---|---|---|---|
""" + "\n".join(rows) + "\n"
p = os.path.join(HERE, "DESIGN.md")
s = open(p).read()
i = s.index("## 12. Seeded property-breaking changes")
open(p, "w").write(s[:i] + text)
print(f"{len(rows)} rows written")
