#!/venv/bin/python
"""Run the repository's pinned suite on a tree (default /repo) and compare with BASELINE.stable_pass.
usage: baseline.py [repo_dir]   -> exit 0 iff every stable_pass test passes."""
import json, os, subprocess, sys, tempfile
import xml.etree.ElementTree as ET
repo = sys.argv[1] if len(sys.argv) > 1 else "/repo"
base = json.load(open("/root/.vp/BASELINE.json"))
stable = set(base["stable_pass"])
fd, junit = tempfile.mkstemp(suffix=".xml"); os.close(fd)
env = dict(os.environ); env["PYTHONDONTWRITEBYTECODE"] = "1"; env.pop("BROMELIA_VERIF", None)
# the suite binds fixed ports (3868-3870): run it in a private network namespace when the kernel allows it, so
# that concurrent suite runs (sub-agents, scratch worktrees) cannot collide
prefix = []
try:
    if subprocess.run(["unshare", "-n", "sh", "-c", "ip link set lo up"], capture_output=True).returncode == 0:
        prefix = ["unshare", "-n", "sh", "-c", 'ip link set lo up && exec "$@"', "sh"]
except OSError:
    pass
p = subprocess.run(prefix + ["/venv/bin/python", "-m", "pytest", "-q", "-p", "no:cacheprovider", "--timeout=900",
                    "--continue-on-collection-errors", f"--junitxml={junit}"], cwd=repo, env=env,
                   stdout=subprocess.PIPE, stderr=subprocess.STDOUT, text=True)
passed = set()
for tc in ET.parse(junit).getroot().iter("testcase"):
    if not any(c.tag in ("failure", "error", "skipped") for c in tc):
        passed.add(f"{tc.get('classname')}::{tc.get('name')}")
os.unlink(junit)
missing = sorted(stable - passed)
print(p.stdout.strip().splitlines()[-1])
print(f"stable_pass={len(stable)} passed_now={len(passed)} missing={len(missing)} new_pass={len(passed-stable)}")
for m in missing[:20]:
    print("  MISSING", m)
sys.exit(1 if missing else 0)
