#!/venv/bin/python
"""Regenerates /verif/MANIFEST.json from the table below and validates it against the schema.
A property is *claimed* when checks/<id>.py exists and the id is in CLAIMED; everything else is
listed under not_applicable with its reason."""
import json
import os
import subprocess
import sys

HERE = os.path.dirname(os.path.dirname(os.path.abspath(__file__)))

CMD = "cd /verif && PYTHONHASHSEED=0 /venv/bin/python run.py {id} --tier {tier}"

# id -> (engine, category, technique, text, note, design_ref)
CLAIMED = {
    "C01": ("ENUM", "exploration",
            "bounded-exhaustive enumeration of message content, differential against a reference RFC 6733 encoder",
            "Complete products over explicit alphabets (header fields, all 256 AVP flag bytes, data lengths "
            "0..9, every dictionary class x every domain value, all AVP sequences <= 2/3 over a 12-letter "
            "alphabet x 8 construction paths, Grouped chains to depth 3/4, every sequence of <= 3/4 container operations "
            "on a Grouped AVP (append, extend, list assignment, cleanup, pop, item assignment) over members that share "
            "bytes with a nested member or have an equal twin, typed commands) are built through "
            "the public API and their bytes compared with an independent encoder fed the same content.",
            "Trusts vk/ref/refcodec.py and the frozen dictionary vk/ref/refdict.json; values outside the "
            "alphabets are not covered; constructors that reject an in-domain value are counted, not judged.",
            "DESIGN.md 4/C01"),
    "C02": ("ENUM", "exploration",
            "bounded-exhaustive enumeration of reference-encoded wire images, field-by-field decode comparison",
            "Wire images for every class x domain value x flag byte (16 quick / all 128 thorough), unknown "
            "(vendor, code) pairs, nested Grouped AVPs, header products with all 256 command-flag bytes and "
            "all streams of <= 2/3 messages over a 5-message alphabet are decoded by the library and compared "
            "field by field and by re-serialisation; plus every history of <= 5 steps over {decode pair A, decode pair B, define a "
            "class for A, define a class for B} (the dictionary growing between decodes).",
            "Trusts refcodec/refdict; 'well-formed' excludes non-zero padding, V bit with Vendor-ID 0, unknown "
            "enumerators, Grouped AVPs lacking mandatory members. One known finding (flags of known AVPs).",
            "DESIGN.md 4/C02"),
    "C10": ("ENUM", "exploration",
            "bounded-exhaustive enumeration of classes x in/out-of-domain values against the frozen dictionary",
            "Every dictionary class x every value of in-domain and out-of-domain alphabets: construction "
            "raises or dumps a well-formed encoding of the value; plus function-ness of (vendor, code), wire "
            "identity vs the frozen dictionary, decode dispatch (each code under Vendor-IDs the dictionary does not define for "
            "it decodes as a generic AVP), Grouped lists with a foreign-vendor impostor in a mandatory member's place, "
            "timezone-aware instants, docs and IANA cross-reading.",
            "Default flags in refdict are frozen from the pinned tree (the published list has no flags); any "
            "exception counts as rejection; UTF-8 validity and negative Unsigned64 are not judged.",
            "DESIGN.md 4/C10"),
    "C03": ("ENUM", "fault_enumeration",
            "systematic fault enumeration on reference-encoded seeds under a deterministic step counter + fault injection into a live node under the schedule explorer",
            "Every truncation point, every length field (all nesting levels) x a value alphabet, every byte x 4 "
            "replacements, typed-data faults for every dictionary class, garbage strings, through the three load "
            "entry points under a sys.monitoring line counter with a frozen bound 150000 + 5300 L + 0.2 L^2; "
            "thorough adds all 2^24 values on two length fields of a DWR.",
            "Decoder inputs also run under a processor-time bound (regular expressions that backtrack spend their time inside one line). Live part: each of 26 fault classes (incl. well-framed application requests with non-UTF-8 text AVPs) injected into a real node in 5 connection states on the virtual runtime "
            "(d = 0 all, d <= 1 on four), then send_message()/close() must return, no lock may be stuck, workers survive "
            "or the connection is closed cleanly. Step = one bromelia source line; which library error is raised is not "
            "constrained.",
            "DESIGN.md 4/C03"),
    "C04": ("SCHED", "model_checking",
            "stateless deviation-bounded schedule exploration of the real receive path on a virtual runtime with a fake socket",
            "Real Diameter node (association, TcpClient/TcpServer, state machine) opened by the real handshake; a scripted "
            "peer delivers message sequences of length 1..2 (3) chunk by chunk: every 1-cut at byte granularity and "
            "byte-at-a-time at d = 0 in both roles, curated (sequence, cut, role) triples at d <= 1 (quick 6, thorough "
            "~70) and two at d <= 2; oracle: get_message() returns exactly the application messages sent, once, whole, "
            "in order; emitted DWAs follow the DWR order; no deadlock/livelock. The SCTP transport classes run the same "
            "scenario family over a fake pysctp socket (d = 0 over structural cuts - thorough every cut -, one scenario at d <= 1).",
            "Line-level atomicity at shared-attribute lines + every synchronisation/socket/selector operation; fake "
            "socket/selector semantics of Linux loopback; handshake is a deterministic prefix; bounded deviations.",
            "DESIGN.md 4/C04"),
    "C05": ("SCHED", "model_checking",
            "stateless deviation-bounded exploration of schedules and socket-write answers on the real send path",
            "Real node opened by the real handshake; k = 1..2 (3) submitters x 1..2 messages (send_message / "
            "send_messages) x inbound traffic {none, DWR, application message} x send-buffer limit {default, 96}; the "
            "fake socket's send() answers {all, 1 byte, all-but-1} are environment choice points; every schedule / "
            "answer pattern with <= 1 deviation (thorough <= 2 for k = 1); oracle: the bytes accepted by the socket are "
            "whole submitted messages, each exactly once, per-submitter order kept, nothing left queued. Submitted "
            "message forms: DiameterRequest/DiameterAnswer objects everywhere, loaded / converted / constructed generic "
            "DiameterMessage objects at d = 0; the SCTP transport classes over a fake pysctp socket (3 scenarios, thorough 7).",
            "Same atomicity and fake-network assumptions as C04; DWAs/DWRs of the base protocol may appear between "
            "whole messages; quiescence judged after 8 idle virtual seconds.",
            "DESIGN.md 4/C05"),
    "C06": ("HIST", "model_checking",
            "explicit-state breadth-first search over event histories replayed on the real node under a controlled scheduler",
            "BFS over histories of peer/local events (valid and invalid CER/CEA/DWR/DWA/DPR/DPA, application traffic, "
            "misaddressed requests, T-flagged base requests, identities padded with foreign-vendor AVPs, back-to-back requests "
            "in one read (also right behind the CER), connect ack/refusal, close, send, peer disconnect at and inside a message boundary, "
            "idle watchdog periods, one restart) for both roles, 0..2 applications and two watchdog settings, to closure "
            "of the canonical state space or depth 12/14; each transition replays the whole history on a fresh real "
            "Diameter object on the virtual runtime (d = 0) and is judged by the reference relation of DESIGN.md "
            "Appendix A (R1-R20, G1-G4).",
            "Threads run under the deterministic fair default schedule between events; events are injected at "
            "quiescent points; election states of RFC 6733 that the library leaves unimplemented are accepted where "
            "the relation says so.",
            "DESIGN.md 4/C06 + Appendix A"),
    "C07": ("HIST", "model_checking",
            "same explicit-state search as C06, answer-matching clauses, plus stateless schedule exploration of two node objects in one process",
            "In every explored history every emitted CEA/DWA/DPA is matched to exactly one request received in that "
            "step (command code, R clear, Hop-by-Hop, End-to-End from a boundary alphabet), carries the local origin "
            "and a Result-Code, and answers leave in request order, including two base requests in one read and a "
            "connection reopened with the same node object. SCHED part: two node objects with the same local identity "
            "receive a DWR / a DPR each at the same moment, every schedule with <= 1 deviation (thorough adds the client role "
            "on the default schedule): each connection carries exactly the answer to its own request.",
            "Same assumptions as C06; identifiers are opaque tokens (data independence); a DPA lost because the transport "
            "thread was kept off the CPU for longer than the node waits before closing is not judged here.",
            "DESIGN.md 4/C07"),
    "C08": ("SCHED", "model_checking",
            "stateless deviation-bounded schedule exploration of every (termination cause, life point, role) combination",
            "Real node taken to 10 life points (start() itself, connecting, awaiting the CEA, accepted-before-CER, four Open "
            "situations incl. an application thread that keeps sending, Closing) x 14 termination causes (local close, "
            "early close with a willing / silent peer, close with a silent peer, close racing with the CEA, DPR, DPA, FIN, "
            "FIN in the middle of a message, RST, refused, non-CEA), both roles (about 60 combinations) over TCP and again "
            "over the SCTP transport classes (fake pysctp socket): all at d = 0, fourteen at d <= 1 in quick; in thorough the "
            "TCP combinations of the earlier sessions at d <= 1 and two at d <= 2, the SCTP family and the causes added last "
            "at the quick bounds; at quiescence state "
            "Closed, sockets closed and de-registered, all worker threads gone, blocked get_message() returned, no lock "
            "held, and in the same execution a second start() with a second scripted handshake reaches Open.",
            "Same scheduling-point and fake-network assumptions as C04/C05; threads that end by an exception during the "
            "shutdown race count as terminated.",
            "DESIGN.md 4/C08"),
    "C09": ("ENUM", "exploration",
            "bounded-exhaustive enumeration of constructor-argument subsets against a hand-written command table",
            "All 50 typed classes (discovered by introspection) x subsets of omittable arguments (sizes 0,1,2,n "
            "quick; every subset for <= 12 arguments thorough) x value variants x extra keyword AVPs x ready-made AVP "
            "objects for declared arguments without a table entry x omission "
            "of each mandatory argument; header, flags, AVP order/class/value, mandatory counts, Message Length, "
            "reference and library round trip, request/answer pairing.",
            "Trusts vk/ref/refcmds.json (written from the RFC/TS texts) and refdict; argument independence "
            "bounds the subset sizes for classes with > 12 optionals; defaults are checked structurally only; RFC 6733 ASA/RAA "
            "are judged as built (round trip) and again after the caller assigned the Application-ID.",
            "DESIGN.md 4/C09"),
    "C19": ("ENUM", "exploration",
            "bounded-exhaustive enumeration of configuration dictionaries and YAML specs",
            "Complete pairwise (thorough: 3-wise) product of valid/invalid value alphabets over the 12 keys, all "
            "132 ordered first/second key choices, an unknown key at every position, two entry points; all YAML "
            "spec lists of length <= 2/3 over a 6-entry alphabet: accepted => every Connection field equals the "
            "configured value and the caller's dict is untouched, else InvalidConfigKey/InvalidConfigValue.",
            "Booleans, non-string IP values and incomplete dictionaries are outside the statement; an empty YAML "
            "transport_type counts as omitted (TCP by default).",
            "DESIGN.md 4/C19"),
    "C20": ("ENUM", "exploration",
            "bounded-exhaustive enumeration of (word, bit), address literals and instants against integer arithmetic",
            "Bit accessors over boundary words (thorough: all words with <= 2 bits set/clear and all 2^16 low and "
            "high half-words) x indices -2..34; IPv4 literals as a complete octet-position product, IPv6 literals "
            "by every compression position/length; one instant per day 1900..2036 plus boundaries.",
            "Trusts the hand-written literal packer and integer arithmetic; reported address text is compared by "
            "re-packing, so any textual form of the same address is accepted.",
            "DESIGN.md 4/C20"),
    "C11": ("HIST", "model_checking",
            "explicit-state breadth-first search over operation histories replayed on the real container, to closure",
            "BFS to closure of the canonical state space of container-operation histories {append, extend, pop, "
            "cleanup, avps=, item assignment, update_key, update_avps, refresh} over a 4/5-letter AVP alphabet with "
            "equal-valued twins, an unknown AVP and a Session-Id (rename targets include the container's own attribute names), on an "
            "empty message, a typed DWR, a typed S6a ULR and two messages as the decoder returns them (header-only, DWR) "
            "( (quick ~20k states / 0.5M transitions; thorough ~115k states / 4.7M transitions); after every "
            "transition view/list identity, membership, order against a list reference, Message Length.",
            "List length capped at 3 (4 on a 3-letter alphabet in thorough); canonical form replaces object "
            "identities by alphabet letters; an AVP object is never listed twice; the Grouped container is outside "
            "the statement.",
            "DESIGN.md 4/C11"),
    "C12": ("ENUM", "exploration",
            "bounded-exhaustive enumeration of request/answer pairs x result codes on the real decorate/route path",
            "25 typed request/answer pairs x boundary Result-Codes (all constants, x000/x001/x999 per family; every "
            "code 0..6999 on two pairs, thorough 0..65535 and 0..6999 on all pairs) x {RC, ER, RC+ER} x Session-Id "
            "length residues x identifier boundary product, through decorate_answer and the real callback_route of "
            "an in-process Bromelia; identity fields, E flag vs n // 1000, RC/ER exclusivity, Message Length.",
            "In-process Worker with a stand-in manager; handler returns a fresh typed answer with E clear; "
            "multiples of 1000 and answers whose Result-Code was dropped for an Experimental-Result are unconstrained.",
            "DESIGN.md 4/C12"),
    "C13": ("HIST", "exploration",
            "bounded-exhaustive enumeration of route tables x request histories on the real dispatcher, plus stateless schedule exploration of two requests in flight",
            "All 63 non-empty route tables over {S6a, Gx} x {316, 317, 272} registered through @app.route x all "
            "histories of <= 2 (thorough <= 3 on small and full tables) requests x 6 handler outcomes through the "
            "real callback_route; every builtin Exception subclass and every class of bromelia.exceptions x 7 argument "
            "shapes; route functions with distinct names and all bearing the same name; answers lacking the Session-Id; request shapes lacking Session-Id / Origin-Host / Origin-Realm: "
            "exactly the registered handler ran once, exactly one message on that application's send queue, "
            "UNABLE_TO_COMPLY content when the handler gave no answer. SCHED part: two (thorough three) requests in "
            "flight with handlers returning a module-level answer / module-level AVPs / fresh objects, every schedule "
            "with <= 1 deviation (thorough 2): one answer per request with that request's identity.",
            "In-process Worker with a stand-in manager (queues snapshot by pickling in the SCHED part, as manager "
            "queues do); unregistered pairs and BaseExceptions that are neither Exception nor the library's own are "
            "outside the statement.",
            "DESIGN.md 4/C13"),
    "C14": ("SCHED", "model_checking",
            "stateless deviation-bounded schedule exploration of the real threads on a virtual runtime",
            "Real Bromelia.send_message, Worker.send_handler, Bromelia.main and answer-dispatch threads with k = "
            "1..2 (3) callers and a scripted peer answering in every order: every schedule with <= 1 (quick) / <= 2 "
            "(thorough, k = 1 and eager k = 2) deviations from the fair default scheduler, where a deviation is a "
            "non-default thread choice at a synchronisation operation or shared-attribute source line, or a long "
            "stall of the running thread; oracle: every caller returns its own answer, none twice, none never. Also: a caller "
            "that sends the same request again once answered (peer quick / slow), two connections (two workers) with the "
            "same Hop-by-Hop identifier outstanding on both, a duplicate of the first answer next to a retry, and a connection that "
            "ends right behind its answer.",
            "In-process Worker with a stand-in manager and a stub connection below it; line-level atomicity; bounded "
            "number of deviations; liveness under the fair continuation after the last deviation.",
            "DESIGN.md 4/C14"),
    "C15": ("HIST", "model_checking",
            "exhaustive exploration of creation histories x the answer tree of the random source, and of schedules of concurrent creators, on the real constructors",
            "All creation histories of length <= 3/4 over 6 creation kinds x every os.urandom answer sequence over a "
            "3-symbol alphabet (lazy branching at every draw, <= 8/10 draws): auto-header requests pairwise distinct "
            "in Hop-by-Hop and End-to-End, explicit-header requests and answers consume no draw, grow no registry and "
            "keep their identifiers; the first requests of a process (one freshly forked process per history, every request "
            "class coming first).",
            "Concurrent clause: 2 (thorough 3) creator threads on the schedule explorer with the random source's answers "
            "{fresh, same-as-last} as environment choices, every schedule with <= 2 (3) deviations. os.urandom substituted "
            "as a module global of bromelia.base; data-independence argument for 3 symbols.",
            "DESIGN.md 4/C15"),
    "C16": ("HIST", "model_checking",
            "explicit-state breadth-first search over generation histories on the real Session-Id generator with a virtual clock, plus stateless schedule exploration of concurrent generation",
            "BFS over histories of <= 7 (quick) / <= 9 (thorough) operations from a 14-operation alphabet (Session-Id "
            "AVPs for two identities, typed messages, bulk origin updates keeping/switching identity, explicit "
            "session_id updates, Acct-Multi-Session-Id, bytes pass-through, clock +1 s): all generated ids pairwise "
            "distinct, RFC 6733 grammar, identity prefix, bytes unchanged; 15 bytes values x 6 ways of supplying a Session-Id as "
            "bytes. SCHED part (also from the generator state exactly as the import left it: the first ids of the process): two (thorough three) threads "
            "generating at once (AVPs for one or two identities, a typed message, a bulk origin update), every schedule "
            "with <= 2 deviations: ids pairwise distinct.",
            "datetime.utcnow substituted in bromelia._internal_utils; depth-bounded (the counter makes the space "
            "infinite).",
            "DESIGN.md 4/C16"),
    "C17": ("ENUM", "exploration",
            "bounded-exhaustive enumeration of the real predicates against n // 1000",
            "Every code 0..65535 plus 32-bit boundaries and all library constants (thorough: plus a "
            "4093-stride over all 32-bit values) through both predicate families and three answer "
            "shapes, compared with integer division; the 16-bit space is covered completely.",
            "Trusts integer arithmetic as the oracle; codes above 65535 are covered by boundaries and a "
            "stride only; object predicates are assumed to read only the Result-Code AVP data.",
            "DESIGN.md 4/C17"),
    "C18": ("ENUM", "exploration",
            "bounded-exhaustive enumeration of digit strings against an independent TBCD codec",
            "All digit strings of length <= 5 (quick) / <= 7 (thorough, 11,111,110 strings) through "
            "encoder and decoder, all integers of <= 4 / <= 6 digits through MsisdnAVP and StnSrAVP; "
            "complete within the bound, compared with a 6-line reference codec.",
            "Trusts the reference codec in checks/c18.py; longer strings are assumed to behave like "
            "shorter ones of equal parity (codec works on independent 2-digit windows).",
            "DESIGN.md 4/C18"),
}

PENDING_REASON = ("check not built yet in this tree (planned in DESIGN.md section 4; the technique "
                  "applies, the machinery for it is still under construction)")

ENGINES = [
    {"name": "ENUM", "path": "vk/core.py + checks/", "kind_free_text":
        "bounded-exhaustive enumeration of inputs/configurations on the real code, differential "
        "against independent reference models"},
    {"name": "HIST", "path": "vk/hist.py", "kind_free_text":
        "explicit-state breadth-first search over operation/event histories replayed on fresh real "
        "objects, canonicalised states, to closure"},
    {"name": "SCHED", "path": "vk/vrt/", "kind_free_text":
        "stateless deviation-bounded schedule explorer over the real threads on a virtual runtime "
        "(controlled threads, locks, events, queues, clock, selector, socket)"},
]


def main():
    props = [json.loads(l) for l in open(os.path.join(HERE, "properties.jsonl"))]
    ids = [p["id"] for p in props]
    checks, na = [], []
    for pid in ids:
        if pid in CLAIMED and os.path.exists(os.path.join(HERE, "checks", pid.lower() + ".py")):
            eng, cat, tech, text, note, ref = CLAIMED[pid]
            checks.append({
                "property_id": pid,
                "quick_cmd": CMD.format(id=pid, tier="quick"),
                "thorough_cmd": CMD.format(id=pid, tier="thorough"),
                "evidence_file": f"/verif/evidence/{pid}.json",
                "replay_cmd_template": "cd /verif && PYTHONHASHSEED=0 /venv/bin/python run.py replay {path}",
                "engine": eng,
                "level_claimed": {"category": cat, "text": text, "design_ref": ref},
                "level_note": note,
                "technique": tech,
            })
        else:
            na.append({"property_id": pid, "reason": PENDING_REASON})
    for e in ENGINES:
        e["serves_properties"] = [c["property_id"] for c in checks if c["engine"] == e["name"]]
    man = {
        "version": 1,
        "setup_cmd": "cd /verif && PYTHONHASHSEED=0 /venv/bin/python run.py selftest",
        "hooks": {
            "guard": "BROMELIA_VERIF",
            "enable": "no source hooks: seams are module globals of bromelia modules substituted by the "
                      "harness after import (DESIGN.md section 2); nothing to build",
            "baseline_off_cmd": "cd /repo && /venv/bin/python -m pytest -ra -q -p no:cacheprovider "
                                "--timeout=900 --continue-on-collection-errors",
            "source_commits": [],
            "add_only": True,
        },
        "engines": ENGINES,
        "checks": checks,
        "not_applicable": na,
        "notes": "Model checking of the implementation itself: every explored input / history / schedule "
                 "is executed on /repo's working tree (VERIF_REPO overrides for scratch copies). "
                 "known_findings.json lists recorded findings and fixed defects.",
    }
    path = os.path.join(HERE, "MANIFEST.json")
    with open(path, "w") as f:
        json.dump(man, f, indent=1)
    r = subprocess.run(["python3-vt", "-c",
                        "import json,jsonschema,sys;"
                        "jsonschema.validate(json.load(open(sys.argv[1])),json.load(open('/root/.vp/MANIFEST.schema.json')));"
                        "print('MANIFEST valid:',len(json.load(open(sys.argv[1]))['checks']),'checks')", path])
    sys.exit(r.returncode)


if __name__ == "__main__":
    main()
