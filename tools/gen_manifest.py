#!/venv/bin/python
"""Regenerates /verif/MANIFEST.json from the table below and validates it against the schema.
A property is *claimed* when checks/<id>.py exists and the id is in CLAIMED; everything else is
listed under not_applicable with its reason."""
import json
import os
import subprocess
import sys

HERE = os.path.dirname(os.path.dirname(os.path.abspath(__file__)))

CMD = "cd /verif && PYTHONHASHSEED=0 /venv/bin/python run.py {id} --tier {tier}"

# id -> (engine, category, technique, text, note, design_ref)
CLAIMED = {
    "C17": ("ENUM", "exploration",
            "bounded-exhaustive enumeration of the real predicates against n // 1000",
            "Every code 0..65535 plus 32-bit boundaries and all library constants (thorough: plus a "
            "4093-stride over all 32-bit values) through both predicate families and three answer "
            "shapes, compared with integer division; the 16-bit space is covered completely.",
            "Trusts integer arithmetic as the oracle; codes above 65535 are covered by boundaries and a "
            "stride only; object predicates are assumed to read only the Result-Code AVP data.",
            "DESIGN.md 4/C17"),
    "C18": ("ENUM", "exploration",
            "bounded-exhaustive enumeration of digit strings against an independent TBCD codec",
            "All digit strings of length <= 5 (quick) / <= 7 (thorough, 11,111,110 strings) through "
            "encoder and decoder, all integers of <= 4 / <= 6 digits through MsisdnAVP and StnSrAVP; "
            "complete within the bound, compared with a 6-line reference codec.",
            "Trusts the reference codec in checks/c18.py; longer strings are assumed to behave like "
            "shorter ones of equal parity (codec works on independent 2-digit windows).",
            "DESIGN.md 4/C18"),
}

PENDING_REASON = ("check not built yet in this tree (planned in DESIGN.md section 4; the technique "
                  "applies, the machinery for it is still under construction)")

ENGINES = [
    {"name": "ENUM", "path": "vk/core.py + checks/", "kind_free_text":
        "bounded-exhaustive enumeration of inputs/configurations on the real code, differential "
        "against independent reference models"},
    {"name": "HIST", "path": "vk/hist.py", "kind_free_text":
        "explicit-state breadth-first search over operation/event histories replayed on fresh real "
        "objects, canonicalised states, to closure"},
    {"name": "SCHED", "path": "vk/vrt/", "kind_free_text":
        "stateless deviation-bounded schedule explorer over the real threads on a virtual runtime "
        "(controlled threads, locks, events, queues, clock, selector, socket)"},
]


def main():
    props = [json.loads(l) for l in open(os.path.join(HERE, "properties.jsonl"))]
    ids = [p["id"] for p in props]
    checks, na = [], []
    for pid in ids:
        if pid in CLAIMED and os.path.exists(os.path.join(HERE, "checks", pid.lower() + ".py")):
            eng, cat, tech, text, note, ref = CLAIMED[pid]
            checks.append({
                "property_id": pid,
                "quick_cmd": CMD.format(id=pid, tier="quick"),
                "thorough_cmd": CMD.format(id=pid, tier="thorough"),
                "evidence_file": f"/verif/evidence/{pid}.json",
                "replay_cmd_template": "cd /verif && PYTHONHASHSEED=0 /venv/bin/python run.py replay {path}",
                "engine": eng,
                "level_claimed": {"category": cat, "text": text, "design_ref": ref},
                "level_note": note,
                "technique": tech,
            })
        else:
            na.append({"property_id": pid, "reason": PENDING_REASON})
    for e in ENGINES:
        e["serves_properties"] = [c["property_id"] for c in checks if c["engine"] == e["name"]]
    man = {
        "version": 1,
        "setup_cmd": "cd /verif && PYTHONHASHSEED=0 /venv/bin/python run.py selftest",
        "hooks": {
            "guard": "BROMELIA_VERIF",
            "enable": "no source hooks: seams are module globals of bromelia modules substituted by the "
                      "harness after import (DESIGN.md section 2); nothing to build",
            "baseline_off_cmd": "cd /repo && /venv/bin/python -m pytest -ra -q -p no:cacheprovider "
                                "--timeout=900 --continue-on-collection-errors",
            "source_commits": [],
            "add_only": True,
        },
        "engines": ENGINES,
        "checks": checks,
        "not_applicable": na,
        "notes": "Model checking of the implementation itself: every explored input / history / schedule "
                 "is executed on /repo's working tree (VERIF_REPO overrides for scratch copies). "
                 "known_findings.json lists recorded findings and fixed defects.",
    }
    path = os.path.join(HERE, "MANIFEST.json")
    with open(path, "w") as f:
        json.dump(man, f, indent=1)
    r = subprocess.run(["python3-vt", "-c",
                        "import json,jsonschema,sys;"
                        "jsonschema.validate(json.load(open(sys.argv[1])),json.load(open('/root/.vp/MANIFEST.schema.json')));"
                        "print('MANIFEST valid:',len(json.load(open(sys.argv[1]))['checks']),'checks')", path])
    sys.exit(r.returncode)


if __name__ == "__main__":
    main()
