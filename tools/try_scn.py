#!/venv/bin/python
"""Explore one SCHED scenario to a deviation bound against $VERIF_REPO (default /repo) and print the signatures.
usage: try_scn.py <check module, e.g. c08> <scenario class> '<params json>' <bound>"""
import json, sys, os
sys.path.insert(0, os.path.dirname(os.path.dirname(os.path.abspath(__file__)))); sys.dont_write_bytecode = True
from vk import core
core.bind_repo()
from vk.vrt import explore
import importlib
mod = importlib.import_module("checks." + sys.argv[1])
scn = getattr(mod, sys.argv[2])(**json.loads(sys.argv[3]))
bound = int(sys.argv[4])
rep = core.Report(sys.argv[1].upper())
stats = {"executions": 0, "points": 0}
base = explore.execute(scn)
explore.run_one(scn, (), rep, stats)
if bound >= 1:
    explore.explore_subtree(scn, explore.successors(base, ()), bound, rep, stats)
print(stats)
for sig, v in rep.violations.items():
    print(sig, v.count, "|", v.what[:200])
if rep.violations and len(sys.argv) > 5:
    v = next(iter(rep.violations.values()))
    print(json.dumps(v.witness)[:600])
    mod.replay(v.witness)
