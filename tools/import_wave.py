#!/venv/bin/python
"""Import the outputs of a seeding wave (written by fresh sub-agents outside /verif) into /verif/seeded/.

usage: import_wave.py <wave-dir> [<tag> ...]
For every <wave-dir>/<tag>/out/<x>/ holding patch.diff, demo.py and notes.json, creates /verif/seeded/<Cnn>-<letter>/
(next free letter for that property) with patch.diff, demo.py and meta.json (property, summary, needs, files, suite,
origin). Already imported outputs (same patch text) are skipped. Confirmation is done afterwards by run_seeded.py.
"""
import glob, json, os, shutil, string, sys

SEEDED = "/verif/seeded"


def main():
    wave = sys.argv[1]
    tags = sys.argv[2:] or sorted(os.listdir(wave))
    known = {open(p).read() for p in glob.glob(os.path.join(SEEDED, "*", "patch.diff"))}
    for tag in tags:
        pid = tag[:3]
        for d in sorted(glob.glob(os.path.join(wave, tag, "out", "*"))):
            pf, df, nf = (os.path.join(d, n) for n in ("patch.diff", "demo.py", "notes.json"))
            if not (os.path.isdir(d) and os.path.exists(pf) and os.path.exists(df)):
                continue
            patch = open(pf).read()
            if patch in known:
                continue
            try:
                notes = json.load(open(nf))
            except Exception:
                notes = {}
            for letter in string.ascii_lowercase:
                name = f"{pid}-{letter}"
                if not os.path.exists(os.path.join(SEEDED, name)):
                    break
            dst = os.path.join(SEEDED, name)
            os.makedirs(dst)
            shutil.copy(pf, os.path.join(dst, "patch.diff"))
            shutil.copy(df, os.path.join(dst, "demo.py"))
            files = notes.get("files", [])
            meta = {"property": pid, "summary": str(notes.get("summary", "")), "needs": str(notes.get("needs", "")),
                    "files": files if isinstance(files, list) else [str(files)], "suite": str(notes.get("suite", "")),
                    "origin": f"{os.path.basename(wave.rstrip('/'))}/{tag}/{os.path.basename(d)}"}
            json.dump(meta, open(os.path.join(dst, "meta.json"), "w"), indent=1)
            known.add(patch)
            print(f"{name} <- {d}")


if __name__ == "__main__":
    main()
