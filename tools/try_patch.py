#!/venv/bin/python
"""Apply a patch to a scratch worktree of /repo (outside /repo and /verif), optionally run the pinned
suite on it, run the given checks against it (VERIF_REPO), print the verdicts, remove the worktree.
usage: try_patch.py [--suite] [--tier quick|thorough] <patch.diff> <Cnn> [<Cnn> ...]"""
import os, subprocess, sys, tempfile, shutil
args = sys.argv[1:]
suite = "--suite" in args
if suite: args.remove("--suite")
tier = "quick"
if "--tier" in args:
    i = args.index("--tier"); tier = args[i + 1]; del args[i:i + 2]
patch, checks = os.path.abspath(args[0]), args[1:]
wt = tempfile.mkdtemp(prefix="verif_wt_", dir="/tmp")
os.rmdir(wt)
subprocess.run(["git", "-C", "/repo", "worktree", "add", "--detach", "-q", wt, "HEAD"], check=True)
rc_all = 0
try:
    r = subprocess.run(["git", "-C", wt, "apply", patch])
    if r.returncode:
        print("PATCH DOES NOT APPLY"); sys.exit(3)
    if suite:
        r = subprocess.run(["/venv/bin/python", "/verif/tools/baseline.py", wt], capture_output=True, text=True)
        print("suite:", "PASS" if r.returncode == 0 else "FAIL", "|", r.stdout.strip().splitlines()[-1] if r.returncode == 0 else r.stdout[-600:])
    env = dict(os.environ, VERIF_REPO=wt, PYTHONHASHSEED="0", VERIF_EVIDENCE_DIR=wt + "/.verif_evidence",
               VERIF_REPLAY_DIR=wt + "/.verif_replays")
    for c in checks:
        r = subprocess.run(["/venv/bin/python", "/verif/run.py", c, "--tier", tier], env=env, capture_output=True, text=True, cwd="/verif")
        viol = [l for l in r.stdout.splitlines() if l.startswith("VIOLATION")]
        sigs = [l.strip() for l in r.stdout.splitlines() if l.startswith("  signature=")]
        print(f"{c}: exit={r.returncode} violations={len(viol)}")
        for s in sigs[:4]:
            print("   ", s[:220])
        if r.returncode == 2:
            print(r.stderr[-800:])
        rc_all = max(rc_all, r.returncode)
finally:
    subprocess.run(["git", "-C", "/repo", "worktree", "remove", "--force", wt])
    shutil.rmtree(wt, ignore_errors=True)
sys.exit(rc_all)
