# -*- coding: utf-8 -*-
"""HIST - explicit-state breadth-first search over operation histories.

A state *is* the history that reaches it: `build(history)` constructs fresh real objects and replays the
operations, so live objects never need to be copied. States are canonicalised and deduplicated; a
violating state is reported and not expanded; the search ends at closure (frontier empty) or at the stated
depth / state cap, and the evidence says which.
"""
import collections


class Model:
    """Interface a check implements.

    initial()            -> iterable of initial histories (usually [()])
    build(history)       -> state object (fresh real objects, operations replayed); may raise Violation-free
    enabled(state)       -> iterable of operations (hashable, JSON-able) to try from this state
    step(history, op)    -> (new_state, violations) where violations = [(signature, text)]; builds
                            history + (op,) on fresh objects and evaluates the oracle for the LAST step only
    canon(state)         -> hashable canonical form
    """


def bfs(model, rep, max_depth=None, max_states=None, part=None):
    """Runs to closure. `part` = (k, n) restricts the expansion of depth-1 successors to every n-th one
    (used to shard the search over processes; each shard still deduplicates its own sub-space)."""
    seen = set()
    frontier = collections.deque()
    transitions = 0
    violating = 0
    for h in model.initial():
        st = model.build(h)
        seen.add(model.canon(st))
        frontier.append(tuple(h))
    depth_reached = 0
    closed = True
    idx0 = 0
    while frontier:
        hist = frontier.popleft()
        if max_depth is not None and len(hist) >= max_depth:
            closed = False
            continue
        st = model.build(hist)
        for op in model.enabled(st):
            if part is not None and len(hist) == 0:
                idx0 += 1
                if idx0 % part[1] != part[0]:
                    continue
            new_state, violations = model.step(hist, op)
            transitions += 1
            nh = hist + (op,)
            if violations:
                violating += 1
                for sig, text in violations:
                    rep.violation(sig, text, {"history": [list(o) if isinstance(o, tuple) else o for o in nh]})
                continue                      # violating states are not expanded
            k = model.canon(new_state)
            if k in seen:
                continue
            if max_states is not None and len(seen) >= max_states:
                closed = False
                rep.cap(f"state cap {max_states} reached")
                continue
            seen.add(k)
            depth_reached = max(depth_reached, len(nh))
            frontier.append(nh)
    if not closed and max_depth is not None:
        rep.cap(f"depth bound {max_depth} reached before closure")
    return {"states": len(seen), "transitions": transitions, "violating_transitions": violating,
            "max_depth": depth_reached, "closed": closed}


# -- level-synchronous parallel BFS --------------------------------------------------------------------

_PMODEL = None


def _expand(hists):
    """-> (transitions, {canon: first history reaching it}, {signature: [text, history, count]})"""
    succ, viol, n = {}, {}, 0
    for hist in hists:
        st = _PMODEL.build(hist)
        for op in _PMODEL.enabled(st):
            new_state, violations = _PMODEL.step(hist, op)
            n += 1
            if violations:
                for sig, text in violations:
                    v = viol.get(sig)
                    if v is None:
                        viol[sig] = [text, hist + (op,), 1]
                    else:
                        v[2] += 1
                continue
            k = _PMODEL.canon(new_state)
            if k not in succ:
                succ[k] = hist + (op,)
    return n, succ, viol, sum(1 for _ in ())


def bfs_parallel(model, rep, nproc, max_depth=None, max_states=None, chunk=16, budget_s=None):
    """Same search as bfs(), one BFS level at a time; the frontier of a level is expanded by forked
    workers (each de-duplicates its own chunk), global deduplication stays in the parent, in frontier
    order, so the result does not depend on the worker count. budget_s: wall-clock cap (reported)."""
    import multiprocessing
    import time
    global _PMODEL
    _PMODEL = model
    t0 = time.time()
    seen = set()
    frontier = []
    for h in model.initial():
        seen.add(model.canon(model.build(h)))
        frontier.append(tuple(h))
    transitions = violating = depth = 0
    closed = True
    ctx = multiprocessing.get_context("fork")
    pool = ctx.Pool(nproc) if nproc > 1 else None
    try:
        while frontier:
            if max_depth is not None and depth >= max_depth:
                closed = False
                rep.cap(f"depth bound {max_depth} reached before closure")
                break
            if budget_s is not None and time.time() - t0 > budget_s:
                closed = False
                rep.cap(f"time budget {budget_s}s reached at depth {depth} with {len(frontier)} unexpanded states")
                break
            chunks = [frontier[i:i + chunk] for i in range(0, len(frontier), chunk)]
            results = pool.map(_expand, chunks, chunksize=1) if pool else [_expand(c) for c in chunks]
            nxt = []
            for n, succ, viol, _x in results:
                transitions += n
                for sig, (text, nh, count) in viol.items():
                    violating += count
                    rep.violation(sig, text, {"history": [list(o) if isinstance(o, tuple) else o for o in nh]})
                    rep.violations[sig].count += count - 1
                for k, nh in succ.items():
                    if k in seen:
                        continue
                    if max_states is not None and len(seen) >= max_states:
                        if closed:
                            rep.cap(f"state cap {max_states} reached")
                        closed = False
                        continue
                    seen.add(k)
                    nxt.append(nh)
            frontier = nxt
            if frontier:
                depth += 1
    finally:
        if pool:
            pool.close()
            pool.join()
    return {"states": len(seen), "transitions": transitions, "violating_transitions": violating,
            "max_depth": depth, "closed": closed}
