# -*- coding: utf-8 -*-
"""Self-tests of the machinery (run by MANIFEST.setup_cmd): the repository binds, the reference
models agree with hand-computed vectors, and (once built) the explorers find the known answers of
their litmus programs. Exit 0 = machinery trustworthy, 2 = harness broken."""
import sys
import traceback

from . import core

TESTS = []


def test(fn):
    TESTS.append(fn)
    return fn


@test
def bind_repo():
    core.bind_repo()


@test
def tbcd_reference_vectors():
    from checks import c18
    assert c18.ref_encode("5521993082672") == "551299032876f2"
    assert c18.ref_encode("1234") == "2143"
    assert c18.ref_decode("2143") == "1234"
    assert c18.ref_decode("21f3") == "123"


@test
def reference_codec_vectors():
    from vk.ref import refcodec
    assert refcodec.selftest()


@test
def hist_engine_toy_model():
    """BFS on a model with a known answer: a counter modulo 5 with +1 and +2 has 5 states and 10 transitions;
    an invariant violated in state 4 must be reported once per incoming transition and state 4 not expanded."""
    from vk import hist

    class Toy:
        def initial(self):
            return [()]

        def build(self, h):
            return sum(h) % 5

        def enabled(self, st):
            return [1, 2]

        def step(self, h, op):
            st = (sum(h) + op) % 5
            return st, ([("TOY:four", "state 4 reached")] if st == 4 else [])

        def canon(self, st):
            return st
    rep = core.Report("TOY")
    res = hist.bfs(Toy(), rep)
    assert res["states"] == 4 and res["closed"], res          # 0,1,2,3 (4 is violating, not a state)
    assert res["transitions"] == 8 and res["violating_transitions"] == 2, res
    assert rep.violations["TOY:four"].count == 2
    rep2 = core.Report("TOY")
    res2 = hist.bfs_parallel(Toy(), rep2, 2)
    assert (res2["states"], res2["transitions"], res2["violating_transitions"]) == (4, 8, 2), res2


@test
def step_counter_bounds_library_code():
    from vk import steps
    from vk.ref import refcodec
    from bromelia.base import DiameterMessage
    msg = refcodec.enc_msg((1, 0x80, 280, 0, 1, 2, [(264, 0x40, None, b"h"), (296, 0x40, None, b"r")]))
    steps.run_bounded(lambda: DiameterMessage.load(msg), 10 ** 7)       # warm-up (the class table is built once)
    out, val, n = steps.run_bounded(lambda: DiameterMessage.load(msg), 10 ** 7)
    assert out == "return" and 1000 < n < 200000, (out, n)
    out, val, n2 = steps.run_bounded(lambda: DiameterMessage.load(msg), 50)
    assert out == "steplimit", out
    out, val, n3 = steps.run_bounded(lambda: DiameterMessage.load(msg), 10 ** 7)
    assert out == "return" and n3 == n, (n, n3)              # deterministic count


@test
def fake_sctp_socket_semantics():
    """The stand-in for pysctp's one-to-one socket: a blocking connect() returns once the peer accepts and raises
    ConnectionRefusedError when it refuses; get_status() tells established from closed; bytes pass both ways."""
    from vk.vrt import fakenet, sched, shims
    out = {}
    for answer in ("accept", "refuse"):
        rt = sched.Runtime(max_points=2000, horizon=60.0)
        rt.net = fakenet.Net()
        shims.set_runtime(rt)

        def driver(answer=answer, rt=rt):
            peer = fakenet.PeerEnd(rt)

            def peer_side():
                peer.wait_connect()
                (peer.accept if answer == "accept" else peer.refuse)()
            shims.Thread(target=peer_side, name="peer").start()
            s = fakenet.FakeSctpSocket()
            try:
                s.connect(("127.0.0.2", 3869))
                st = s.get_status()
                s.setblocking(False)
                peer.send(b"abc")
                got = s.sctp_recv(100)[2]
                sent = s.sctp_send(b"xyz")
                out[answer] = (st.state == st.state_ESTABLISHED, got, sent, peer.received())
            except ConnectionRefusedError:
                out[answer] = ("refused", s.get_status().state == fakenet.SctpStatus.state_CLOSED)
            rt.stop()
        try:
            rt.run(driver, real_timeout=30)
        finally:
            shims.set_runtime(None)
    assert out["accept"] == (True, b"abc", 3, b"xyz"), out
    assert out["refuse"] == ("refused", True), out


def main():
    failed = 0
    for t in TESTS:
        try:
            t()
            print(f"selftest {t.__name__}: ok")
        except BaseException:  # noqa
            failed += 1
            print(f"selftest {t.__name__}: FAILED\n{traceback.format_exc()}", file=sys.stderr)
    for extra in ("vk.vrt.litmus", "vk.ref.selftest"):
        try:
            mod = __import__(extra, fromlist=["main"])
        except ImportError:
            continue
        failed += mod.main()
    print(f"selftest: {len(TESTS)} basic tests, failed={failed}")
    return 2 if failed else 0
