# -*- coding: utf-8 -*-
"""Self-tests of the machinery (run by MANIFEST.setup_cmd): the repository binds, the reference
models agree with hand-computed vectors, and (once built) the explorers find the known answers of
their litmus programs. Exit 0 = machinery trustworthy, 2 = harness broken."""
import sys
import traceback

from . import core

TESTS = []


def test(fn):
    TESTS.append(fn)
    return fn


@test
def bind_repo():
    core.bind_repo()


@test
def tbcd_reference_vectors():
    from checks import c18
    assert c18.ref_encode("5521993082672") == "551299032876f2"
    assert c18.ref_encode("1234") == "2143"
    assert c18.ref_decode("2143") == "1234"
    assert c18.ref_decode("21f3") == "123"


def main():
    failed = 0
    for t in TESTS:
        try:
            t()
            print(f"selftest {t.__name__}: ok")
        except BaseException:  # noqa
            failed += 1
            print(f"selftest {t.__name__}: FAILED\n{traceback.format_exc()}", file=sys.stderr)
    for extra in ("vk.vrt.litmus", "vk.ref.selftest"):
        try:
            mod = __import__(extra, fromlist=["main"])
        except ImportError:
            continue
        failed += mod.main()
    print(f"selftest: {len(TESTS)} basic tests, failed={failed}")
    return 2 if failed else 0
