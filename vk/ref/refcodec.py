# -*- coding: utf-8 -*-
"""Reference RFC 6733 codec, written from the RFC text (sections 3 and 4.1). Shares no code with
bromelia and never imports it. Only int.to_bytes / int.from_bytes / slicing.

Abstract content
  AVP     = (code:int, flags:int, vendor:int|None, payload)   payload = bytes | [AVP, ...] (Grouped)
  Message = (version, flags, command, application, hop_by_hop, end_to_end, [AVP, ...])
"""


class RefDecodeError(Exception):
    pass


def pad4(n):
    return (-n) % 4


def enc_avp(avp):
    code, flags, vendor, payload = avp
    data = payload if isinstance(payload, (bytes, bytearray)) else b"".join(enc_avp(m) for m in payload)
    has_vendor = bool(flags & 0x80)
    if has_vendor != (vendor is not None):
        raise ValueError("V flag must agree with Vendor-ID presence")
    hdr = 12 if has_vendor else 8
    length = hdr + len(data)                       # header + data, NOT padding
    out = code.to_bytes(4, "big") + bytes([flags]) + length.to_bytes(3, "big")
    if has_vendor:
        out += vendor.to_bytes(4, "big")
    return out + bytes(data) + bytes(pad4(len(data)))


def enc_avps(avps):
    return b"".join(enc_avp(a) for a in avps)


def enc_msg(msg):
    version, flags, command, application, hbh, e2e, avps = msg
    body = enc_avps(avps)
    total = 20 + len(body)
    return (bytes([version]) + total.to_bytes(3, "big") + bytes([flags]) + command.to_bytes(3, "big")
            + application.to_bytes(4, "big") + hbh.to_bytes(4, "big") + e2e.to_bytes(4, "big") + body)


def dec_avps(data, recurse=None):
    """Flat decode of a run of AVPs -> [(code, flags, vendor, data_bytes)].
    `recurse(code, vendor)` may return True to decode the payload as Grouped (payload becomes a list)."""
    out, i, n = [], 0, len(data)
    while i < n:
        if n - i < 8:
            raise RefDecodeError("truncated AVP header")
        code = int.from_bytes(data[i:i + 4], "big")
        flags = data[i + 4]
        length = int.from_bytes(data[i + 5:i + 8], "big")
        hdr = 12 if flags & 0x80 else 8
        if length < hdr or i + length > n:
            raise RefDecodeError("bad AVP length")
        vendor = int.from_bytes(data[i + 8:i + 12], "big") if flags & 0x80 else None
        payload = bytes(data[i + hdr:i + length])
        padded = length + pad4(length)
        if i + padded > n:
            # RFC 6733: padding is required; the last AVP of a Grouped/Message must be padded too
            raise RefDecodeError("missing padding")
        if recurse is not None and recurse(code, vendor):
            payload = dec_avps(payload, recurse)
        out.append((code, flags, vendor, payload))
        i += padded
    return out


def dec_msgs(stream, recurse=None):
    out, i, n = [], 0, len(stream)
    while i < n:
        if n - i < 20:
            raise RefDecodeError("truncated header")
        version = stream[i]
        length = int.from_bytes(stream[i + 1:i + 4], "big")
        flags = stream[i + 4]
        command = int.from_bytes(stream[i + 5:i + 8], "big")
        application = int.from_bytes(stream[i + 8:i + 12], "big")
        hbh = int.from_bytes(stream[i + 12:i + 16], "big")
        e2e = int.from_bytes(stream[i + 16:i + 20], "big")
        if length < 20 or length % 4 or i + length > n:
            raise RefDecodeError("bad message length")
        avps = dec_avps(stream[i + 20:i + length], recurse)
        out.append((version, flags, command, application, hbh, e2e, avps))
        i += length
    return out


def split_msgs(stream):
    """Byte slices of the messages in a well-formed stream."""
    out, i = [], 0
    while i < len(stream):
        length = int.from_bytes(stream[i + 1:i + 4], "big")
        if length < 20:
            raise RefDecodeError("bad message length")
        out.append(bytes(stream[i:i + length]))
        i += length
    return out


def selftest():
    # RFC 6733 section 4.1 style hand vectors
    a = enc_avp((264, 0x40, None, b"abc"))
    assert a == bytes.fromhex("00000108" "40" "00000b" "616263" "00"), a.hex()
    v = enc_avp((1405, 0xc0, 10415, b"\x00\x00\x00\x01"))
    assert v == bytes.fromhex("0000057d" "c0" "000010" "000028af" "00000001"), v.hex()
    g = enc_avp((260, 0x40, None, [(266, 0x40, None, b"\x00\x00\x28\xaf"), (258, 0x40, None, b"\x01\x00\x00\x23")]))
    assert len(g) == 8 + 12 + 12 and g[5:8] == (32).to_bytes(3, "big")
    m = enc_msg((1, 0x80, 280, 0, 1, 2, [(264, 0x40, None, b"abc")]))
    assert m[:4] == bytes.fromhex("01000020") and len(m) == 32
    assert dec_msgs(m) == [(1, 0x80, 280, 0, 1, 2, [(264, 0x40, None, b"abc")])]
    assert dec_avps(g, lambda c, vd: c == 260)[0][3][1] == (258, 0x40, None, b"\x01\x00\x00\x23")
    return True
