# -*- coding: utf-8 -*-
"""In-process Bromelia orchestrator for the routing checks (C12, C13, C14): the real Bromelia object
built from a YAML fixture, the real Worker objects created exactly as Bromelia._run does, but with a
stand-in `manager` whose Event()/Queue()/Lock() return in-process primitives and without ever starting
the worker processes. All Worker/Bromelia methods run unchanged."""
import os
import queue as _queue
import tempfile
import threading as _threading

APPS = {
    # short name -> (application constant name, local/peer suffix)
    "s6a": "DIAMETER_APPLICATION_S6a_S6d",
    "s13": "DIAMETER_APPLICATION_S13_S13",
    "swm": "DIAMETER_APPLICATION_SWm",
    "swx": "DIAMETER_APPLICATION_SWx",
    "s6b": "DIAMETER_APPLICATION_S6b",
    "gx": "DIAMETER_APPLICATION_Gx",
    "gy": "DIAMETER_APPLICATION_Gy",
    "rx": "DIAMETER_APPLICATION_Rx",
}


def fixture_yaml(apps):
    lines = ["api_version: v1", "name: verif", "spec:"]
    for i, a in enumerate(apps):
        lines += ["  - applications:", "      - vendor_id: VENDOR_ID_3GPP", f"        app_id: {APPS[a]}",
                  "    mode: Server", "    watchdog_timeout: 30", "    transport_type: TCP",
                  "    local:", "      ip_address: 127.0.0.1", f"      hostname: local-{a}.example",
                  f"      realm: realm-{a}.local", f"      port: {3868 + i}",
                  "    peer:", "      ip_address: 127.0.0.1", f"      hostname: peer-{a}.example",
                  f"      realm: realm-{a}.peer", f"      port: {4868 + i}"]
    return "\n".join(lines) + "\n"


class StdManager:
    """Plain in-process primitives (sequential checks)."""
    def Event(self):
        return _threading.Event()

    def Queue(self):
        return _queue.Queue()

    def Lock(self):
        return _threading.Lock()


def make_bromelia(apps, manager=None, zero_timers=True):
    """-> (bromelia_app, {short name: worker}). Resets the class-level Worker registries, as a fresh
    orchestrator process would have them."""
    import bromelia.bromelia as BB
    if zero_timers:
        # Barrier.wait(timeout=0) breaks immediately: the thresholds only pace a loaded system
        BB.SEND_THRESHOLD_TICKER = 0
        BB.PROCESS_TIMER = 0
    fd, path = tempfile.mkstemp(prefix="verif_bromelia_", suffix=".yaml")
    with os.fdopen(fd, "w") as f:
        f.write(fixture_yaml(apps))
    try:
        app = BB.Bromelia(config_file=path)
    finally:
        os.unlink(path)
    BB.Worker.associations = dict()
    BB.Worker.recv_queues = list()
    manager = manager or StdManager()
    workers = {}
    for short, dia in zip(apps, app._create_applications(False, False)):
        w = BB.Worker(dia, manager)
        w.is_open.set()
        workers[short] = w
    app.recv_queues = BB.Worker.recv_queues
    app.associations = BB.Worker.associations
    return app, workers


def drain(worker):
    """What the worker's send_handler does for each queued message (minus the socket): take it and
    release the send lock. Returns the messages in queue order."""
    out = []
    while not worker.send_queue.empty():
        out.append(worker.send_queue.get())
        try:
            worker.send_lock.release()
        except RuntimeError:
            pass
    return out
