# -*- coding: utf-8 -*-
"""Abstract AVP content shared by the ENUM checks: what the enumerator *intends* (class + value, or
generic code/flags/vendor/data), from which (a) the library object is built through the public API
and (b) the expected bytes are computed by the reference codec from the frozen reference dictionary.
The expectation is never read back from the library object.
"""
import datetime
import json
import os

from .ref import refcodec

_HERE = os.path.dirname(os.path.abspath(__file__))
with open(os.path.join(_HERE, "ref", "refdict.json")) as _f:
    REFDICT = json.load(_f)["entries"]
BY_CLASS = {e["class"]: e for e in REFDICT}
BY_WIRE = {(e["vendor"], e["code"]): e for e in REFDICT}

# classes whose constructor transforms a str/int argument (covered by C16 / C18); ENUM feeds bytes
GENERATES_FROM_STR = {"SessionIdAVP", "AcctMultiSessionIdAVP"}
TBCD_FROM_NUMBER = {"MsisdnAVP", "StnSrAVP"}


# -- hand-written literal packers (no ipaddress module) -------------------------------------------

def pack_ipv4(text):
    parts = text.split(".")
    if len(parts) != 4:
        raise ValueError(text)
    out = []
    for p in parts:
        if not p.isdigit() or (len(p) > 1 and p[0] == "0") or int(p) > 255:
            raise ValueError(text)
        out.append(int(p))
    return bytes(out)


def pack_ipv6(text):
    if text.count("::") > 1:
        raise ValueError(text)
    tail4 = b""
    if "." in text:
        head, _, v4 = text.rpartition(":")
        tail4 = pack_ipv4(v4)
        text = head + (":" if head.endswith(":") else "")
        if text.endswith(":") and not text.endswith("::"):
            text = text[:-1]
    ngroups = 8 - (2 if tail4 else 0)

    def groups(s):
        if s == "":
            return []
        out = []
        for g in s.split(":"):
            if not (1 <= len(g) <= 4) or any(c not in "0123456789abcdefABCDEF" for c in g):
                raise ValueError(text)
            out.append(int(g, 16))
        return out

    if "::" in text:
        left, right = text.split("::")
        lg, rg = groups(left), groups(right)
        fill = ngroups - len(lg) - len(rg)
        if fill < 1:
            raise ValueError(text)
        gs = lg + [0] * fill + rg
    else:
        gs = groups(text)
        if len(gs) != ngroups:
            raise ValueError(text)
    return b"".join(g.to_bytes(2, "big") for g in gs) + tail4


def seconds_since_1900(dt):
    days = dt.toordinal() - datetime.date(1900, 1, 1).toordinal()
    return days * 86400 + dt.hour * 3600 + dt.minute * 60 + dt.second


# -- value domains per data type -------------------------------------------------------------------

URIS = [
    "aaa://host.example.com",
    "aaas://host.example.com",
    "aaa://host.example.com:3868",
    "aaa://host.example.com;transport=tcp",
    "aaa://host.example.com:6666;transport=sctp;protocol=diameter",
    "aaas://h-1.example.org:1;protocol=radius",
    # FQDNs with the digit 0 in the first label / at the very end, a short one
    "aaa://hss0",
    "aaa://node10.example.com",
    "aaa://host.example.com:3870",
    "aaa://ab",
]

ADDRS = ["10.0.0.1", "0.0.0.0", "255.255.255.255", "127.0.0.1", "::1", "::", "2001:db8::1",
         "fe80::1:2:3:4", "2001:db8:0:1:2:3:4:5"]

TIMES = [datetime.datetime(1900, 1, 1), datetime.datetime(1900, 1, 1, 0, 0, 1),
         datetime.datetime(1970, 1, 1), datetime.datetime(2020, 2, 29, 12, 0, 1),
         datetime.datetime(2036, 2, 7, 6, 28, 15)]


def scalar_domain(entry, wide=False):
    """[(constructor argument, expected data bytes)] of in-domain values, simplest first."""
    t, cname = entry["type"], entry["class"]
    out = []
    if entry.get("special") == "ipv4_packed":
        for a in ("10.0.0.1", "0.0.0.0", "255.255.255.255"):
            out.append((a, pack_ipv4(a)))
            out.append((pack_ipv4(a), pack_ipv4(a)))
    elif t == "OctetString":
        for n in range(0, 6):
            b = bytes(range(1, n + 1))
            out.append((b, b))
        if cname not in TBCD_FROM_NUMBER:
            out.append(("abc", b"abc"))
        if wide:
            out.append((bytes(range(256)), bytes(range(256))))
            out.append((b"\x00" * 7, b"\x00" * 7))
    elif t in ("UTF8String", "DiameterIdentity"):
        strs = ["", "a", "ab", "abc", "abcd", "abcde", "host.example.com"]
        if t == "UTF8String":
            strs.append("hé€")
        for s in strs:
            b = s.encode("utf-8")
            if cname not in GENERATES_FROM_STR:
                out.append((s, b))
            out.append((b, b))
        if wide:
            out.append((b"x" * 255, b"x" * 255))
    elif t == "DiameterURI":
        for u in URIS:
            out.append((u, u.encode()))
            out.append((u.encode(), u.encode()))
    elif t == "Unsigned32":
        for n in (0, 1, 2 ** 31 - 1, 2 ** 31, 2 ** 32 - 1) + ((255, 256, 65535, 65536, 0x01020304) if wide else ()):
            out.append((n, n.to_bytes(4, "big")))
        out.append((b"\x00\x00\x00\x00", b"\x00\x00\x00\x00"))
        out.append((b"\xff\xff\xff\xff", b"\xff\xff\xff\xff"))
    elif t == "Unsigned64":
        for n in (0, 1, 2 ** 32, 2 ** 63 - 1, 2 ** 63, 2 ** 64 - 1):
            out.append((n, n.to_bytes(8, "big")))
        out.append((b"\x00" * 8, b"\x00" * 8))
        out.append((b"\xff" * 8, b"\xff" * 8))
    elif t == "Integer32":
        for h in ("00000000", "00000001", "7fffffff", "80000000", "ffffffff"):
            out.append((bytes.fromhex(h), bytes.fromhex(h)))
    elif t == "Enumerated":
        for h in entry["values"]:
            out.append((bytes.fromhex(h), bytes.fromhex(h)))
    elif t == "Address":
        for a in ADDRS:
            packed = (b"\x00\x01" + pack_ipv4(a)) if "." in a and ":" not in a else (b"\x00\x02" + pack_ipv6(a))
            out.append((a, packed))
            out.append((packed, packed))
    elif t == "Time":
        for d in TIMES:
            b = seconds_since_1900(d).to_bytes(4, "big")
            out.append((d, b))
            out.append((b, b))
    else:
        raise ValueError(t)
    return out


_LIB_CLASSES = {}


def lib_class(cname):
    """The library's dictionary class of that name (any module), None when it does not exist."""
    if not _LIB_CLASSES:
        from bromelia.base import DiameterAVP
        for c in DiameterAVP.__subclasses__():
            _LIB_CLASSES[c.__name__] = c      # a later definition of the same name shadows the earlier
    return _LIB_CLASSES.get(cname)


class Abs:
    """One abstract AVP. kind 'dict': class name + constructor value (+ member list for Grouped);
    kind 'generic': explicit code / flags / vendor / data."""
    __slots__ = ("kind", "cls", "value", "data", "members", "code", "flags", "vendor", "form")

    @classmethod
    def of(cls, cname, value, data):
        a = cls()
        a.kind, a.cls, a.value, a.data, a.members = "dict", cname, value, data, None
        return a

    @classmethod
    def grouped(cls, cname, members, as_bytes=False):
        a = cls()
        a.kind, a.cls, a.members = "dict", cname, list(members)
        a.value, a.data = ("bytes" if as_bytes else "list"), None
        return a

    @classmethod
    def generic(cls, code, flags, vendor, data, form="bytes"):
        a = cls()
        a.kind, a.code, a.flags, a.vendor, a.data, a.form = "generic", code, flags, vendor, data, form
        a.members = None
        return a

    # expected wire content
    def abstract(self):
        if self.kind == "generic":
            return (self.code, self.flags, self.vendor, self.data)
        e = BY_CLASS[self.cls]
        payload = [m.abstract() for m in self.members] if self.members is not None else self.data
        return (e["code"], e["flags"], e["vendor"], payload)

    def expected(self):
        return refcodec.enc_avp(self.abstract())

    # library object, through the public constructors only
    def build(self):
        from bromelia.base import DiameterAVP
        if self.kind == "generic":
            if self.form == "str":
                data = self.data.decode("utf-8")
            elif self.form == "int":
                data = int.from_bytes(self.data, "big")
            else:
                data = self.data
            return DiameterAVP(code=self.code, vendor_id=self.vendor, flags=self.flags, data=data)
        klass = lib_class(self.cls)
        if self.members is not None:
            if self.value == "bytes":
                return klass(refcodec.enc_avps([m.abstract() for m in self.members]))
            return klass([m.build() for m in self.members])
        return klass(self.value)

    def describe(self):
        if self.kind == "generic":
            return {"generic": [self.code, self.flags, self.vendor, self.data.hex(), self.form]}
        if self.members is not None:
            return {self.cls: [m.describe() for m in self.members], "as": self.value}
        v = self.value
        if isinstance(v, bytes):
            v = "hex:" + v.hex()
        elif isinstance(v, datetime.datetime):
            v = "dt:" + v.isoformat()
        return {self.cls: v}

    @classmethod
    def from_description(cls, d):
        if "generic" in d:
            code, flags, vendor, hx, form = d["generic"]
            return cls.generic(code, flags, vendor, bytes.fromhex(hx), form)
        items = [(k, v) for k, v in d.items() if k != "as"]
        cname, v = items[0]
        if isinstance(v, list):
            return cls.grouped(cname, [cls.from_description(m) for m in v], d.get("as") == "bytes")
        if isinstance(v, str) and v.startswith("hex:"):
            v = bytes.fromhex(v[4:])
        elif isinstance(v, str) and v.startswith("dt:"):
            v = datetime.datetime.fromisoformat(v[3:])
        e = BY_CLASS[cname]
        for val, data in scalar_domain(e, wide=True):
            if val == v and type(val) is type(v):
                return cls.of(cname, v, data)
        raise KeyError(f"value {v!r} not in the domain alphabet of {cname}")


def first_value(entry):
    v, d = scalar_domain(entry)[min(3, len(scalar_domain(entry)) - 1)] if entry["type"] in (
        "OctetString", "UTF8String", "DiameterIdentity") else scalar_domain(entry)[0]
    return v, d


def minimal(cname, depth=0):
    """Smallest in-domain instance of a class (Grouped: mandatory members only, recursively)."""
    e = BY_CLASS[cname]
    if e["type"] == "Grouped":
        members = [minimal(m, depth + 1) for m in e["mandatory"].values()]
        if not members and e["optionals"] and depth < 3:
            members = [minimal(next(iter(e["optionals"].values())), depth + 1)]
        return Abs.grouped(cname, members)
    v, d = first_value(e)
    if cname in GENERATES_FROM_STR and isinstance(v, str):
        v = d
    return Abs.of(cname, v, d)


def grouped_variants(cname, wide=False):
    """Member lists for a Grouped class: mandatory only; mandatory + each single optional; as bytes."""
    e = BY_CLASS[cname]
    base = [minimal(m, 1) for m in e["mandatory"].values()]
    out = []
    if base or not e["optionals"]:
        out.append(Abs.grouped(cname, base))
    for oname in e["optionals"].values():
        out.append(Abs.grouped(cname, base + [minimal(oname, 1)]))
    if base:
        out.append(Abs.grouped(cname, base, as_bytes=True))
    if wide and e["optionals"]:
        allm = base + [minimal(o, 1) for o in e["optionals"].values()]
        out.append(Abs.grouped(cname, allm))
        out.append(Abs.grouped(cname, list(reversed(allm))))
    return out


def all_instances(cname, wide=False):
    e = BY_CLASS[cname]
    if e["type"] == "Grouped":
        return grouped_variants(cname, wide)
    return [Abs.of(cname, v, d) for v, d in scalar_domain(e, wide)]
