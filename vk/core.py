# -*- coding: utf-8 -*-
"""Common plumbing of the verification kit: locating the repository under test, the per-run
Report (counters, samples, violations), the known-findings filter, replay artefacts, evidence files
and a fork-based worker pool for sharded exhaustive enumerations.

Nothing in here decides a property; the explorers (vk.enum / vk.hist / vk.vrt) and the per-property
modules under checks/ do.
"""
import hashlib
import json
import multiprocessing
import os
import sys
import time
import traceback

VERIF_DIR = os.path.dirname(os.path.dirname(os.path.abspath(__file__)))
REPO_DIR = os.environ.get("VERIF_REPO", "/repo")
EVIDENCE_DIR = os.environ.get("VERIF_EVIDENCE_DIR") or os.path.join(VERIF_DIR, "evidence")
REPLAY_DIR = os.environ.get("VERIF_REPLAY_DIR") or os.path.join(VERIF_DIR, "replays")
KNOWN_FINDINGS = os.path.join(VERIF_DIR, "known_findings.json")

MAX_SAMPLES = 6
MAX_REPLAYS_PER_RUN = 40


class HarnessError(Exception):
    """The machinery itself is broken (exit 2): never reported as a violation, never as a pass."""


def bind_repo():
    """Make `import bromelia` resolve to the working tree of the repository under test."""
    sys.dont_write_bytecode = True
    repo = os.path.abspath(REPO_DIR)
    if not os.path.isdir(os.path.join(repo, "bromelia")):
        raise HarnessError(f"no bromelia package under {repo}")
    if sys.path[0] != repo:
        sys.path.insert(0, repo)
    import warnings
    warnings.filterwarnings("ignore", category=SyntaxWarning)
    import logging
    logging.disable(logging.CRITICAL)
    import bromelia  # noqa: F401
    got = os.path.dirname(os.path.dirname(os.path.abspath(bromelia.__file__)))
    if got != repo:
        raise HarnessError(f"bromelia imported from {got}, expected {repo}")
    # every module of the package, so that all dictionary and command classes exist in every check
    import importlib
    import pkgutil
    for m in pkgutil.walk_packages(bromelia.__path__, "bromelia."):
        try:
            importlib.import_module(m.name)
        except ImportError:
            pass    # optional third-party dependency of a module (e.g. pysctp)
    return repo


def jobs():
    try:
        return max(1, int(os.environ.get("VERIF_JOBS", "0")) or (os.cpu_count() or 1))
    except ValueError:
        return os.cpu_count() or 1


def jdump(obj):
    def default(o):
        if isinstance(o, (bytes, bytearray)):
            return "hex:" + bytes(o).hex()
        if isinstance(o, (set, frozenset)):
            return sorted(o, key=repr)
        if isinstance(o, tuple):
            return list(o)
        return repr(o)
    return json.dumps(obj, default=default, indent=1, sort_keys=True)


class Violation:
    __slots__ = ("signature", "what", "witness", "count")

    def __init__(self, signature, what, witness):
        self.signature = signature
        self.what = what
        self.witness = witness
        self.count = 1

    def as_tuple(self):
        return (self.signature, self.what, self.witness, self.count)


class Report:
    """Accumulates what one run (or one shard of a run) covered. Mergeable across processes."""

    def __init__(self, prop):
        self.prop = prop
        self.evaluations = 0
        self.distinct = 0
        self.counters = {}
        self.samples = []
        self.violations = {}       # signature -> Violation (first = smallest witness kept)
        self.notes = []
        self.exhaustive = True
        self.caps = []
        self.outcomes = set()

    # -- counting ---------------------------------------------------------------------------
    def add(self, evaluations=0, distinct=0, **counters):
        self.evaluations += evaluations
        self.distinct += distinct
        for k, v in counters.items():
            self.counters[k] = self.counters.get(k, 0) + v

    def count(self, key, n=1):
        self.counters[key] = self.counters.get(key, 0) + n

    def sample(self, obj):
        if len(self.samples) < MAX_SAMPLES:
            self.samples.append(obj)

    def outcome(self, key):
        if len(self.outcomes) < 100000:
            self.outcomes.add(key)

    def cap(self, what):
        self.exhaustive = False
        if what not in self.caps:
            self.caps.append(what)

    def note(self, text):
        if text not in self.notes:
            self.notes.append(text)

    # -- violations -------------------------------------------------------------------------
    def violation(self, signature, what, witness):
        v = self.violations.get(signature)
        if v is None:
            self.violations[signature] = Violation(signature, what, witness)
        else:
            v.count += 1

    # -- merging ----------------------------------------------------------------------------
    def export(self):
        return {
            "evaluations": self.evaluations, "distinct": self.distinct, "counters": self.counters,
            "samples": self.samples, "violations": [v.as_tuple() for v in self.violations.values()],
            "notes": self.notes, "exhaustive": self.exhaustive, "caps": self.caps,
            "outcomes": list(self.outcomes),
        }

    def merge(self, exported):
        self.evaluations += exported["evaluations"]
        self.distinct += exported["distinct"]
        for k, v in exported["counters"].items():
            self.counters[k] = self.counters.get(k, 0) + v
        for s in exported["samples"]:
            self.sample(s)
        for sig, what, witness, count in exported["violations"]:
            v = self.violations.get(sig)
            if v is None:
                v = self.violations[sig] = Violation(sig, what, witness)
                v.count = count
            else:
                v.count += count
        for n in exported["notes"]:
            self.note(n)
        if not exported["exhaustive"]:
            self.exhaustive = False
        for c in exported["caps"]:
            if c not in self.caps:
                self.caps.append(c)
        for o in exported["outcomes"]:
            self.outcome(o if not isinstance(o, list) else tuple(o))


# -- sharded execution -------------------------------------------------------------------------

_SHARD_FN = None
_SHARD_PROP = None


def _run_shard(arg):
    rep = Report(_SHARD_PROP)
    try:
        _SHARD_FN(rep, arg)
    except BaseException:   # library exceptions derive from BaseException; HarnessError included: a shard that
        # breaks (a replay that diverges because a change made the library nondeterministic, say) keeps what it had
        # found and never takes the other shards' findings with it
        out = rep.export()
        out["harness_error"] = f"shard {repr(arg)[:200]}: " + traceback.format_exc()[-1500:]
        return out
    return rep.export()


def run_shards(report, fn, shard_args, nproc=None, fresh_process=False, shard_timeout=7200):
    """Run fn(report_shard, arg) for every arg, in forked workers, merging results in order.
    fresh_process: every shard runs in a newly forked process (process-wide library state such as the
    identifier registries then starts from the parent's state for each shard)."""
    global _SHARD_FN, _SHARD_PROP
    shard_args = list(shard_args)
    nproc = min(nproc or jobs(), len(shard_args)) or 1
    _SHARD_FN, _SHARD_PROP = fn, report.prop
    if nproc == 1:
        results = [_run_shard(a) for a in shard_args]
    else:
        ctx = multiprocessing.get_context("fork")
        with ctx.Pool(nproc, maxtasksperchild=1 if fresh_process else None) as pool:
            try:
                results = pool.map_async(_run_shard, shard_args, chunksize=1).get(timeout=shard_timeout)
            except multiprocessing.TimeoutError:
                pool.terminate()
                raise HarnessError(f"shards did not finish within {shard_timeout}s")
    errors = []
    for r in results:
        if "harness_error" in r:
            errors.append(r.pop("harness_error"))
        if r:
            report.merge(r)
    if errors:
        # a broken shard never hides what the other shards found: violations are still reported (exit 1);
        # without violations the run is a harness error (exit 2), never a pass
        report.harness_errors = getattr(report, "harness_errors", []) + errors
        report.exhaustive = False


# -- known findings, replays, evidence -----------------------------------------------------------

def load_known_findings():
    if not os.path.exists(KNOWN_FINDINGS):
        return []
    with open(KNOWN_FINDINGS) as f:
        data = json.load(f)
    return data.get("findings", [])


def sig_file(signature):
    safe = "".join(c if c.isalnum() or c in "-_." else "_" for c in signature)[:80]
    return safe + "-" + hashlib.sha1(signature.encode()).hexdigest()[:8] + ".json"


def finish(report, tier, seed, level, rule, started, assumptions, extra=None, level_keys=None):
    """Write replays + evidence, print the contract lines, return the exit code."""
    prop = report.prop
    known = {f["signature"]: f for f in load_known_findings()
             if f.get("property") == prop and f.get("status") == "known"}
    os.makedirs(os.path.join(REPLAY_DIR, prop), exist_ok=True)
    os.makedirs(EVIDENCE_DIR, exist_ok=True)

    new, seen_known = [], []
    for sig in sorted(report.violations):
        v = report.violations[sig]
        if sig in known:
            seen_known.append(v)
        else:
            new.append(v)

    lines = []
    for v in seen_known:
        lines.append(f"KNOWN-FINDING: property={prop} {known[v.signature].get('what_fails', v.what)}"
                     f" [signature={v.signature} occurrences={v.count}]")
    for i, v in enumerate(new):
        path = os.path.join(REPLAY_DIR, prop, sig_file(v.signature))
        if i < MAX_REPLAYS_PER_RUN:
            with open(path, "w") as f:
                f.write(jdump({"property": prop, "signature": v.signature, "what": v.what,
                               "occurrences": v.count, "witness": v.witness,
                               "replay_cmd": f"cd {VERIF_DIR} && PYTHONHASHSEED=0 /venv/bin/python "
                                             f"run.py replay {path}"}))
        lines.append(f"VIOLATION property={prop} replay={path}")
        lines.append(f"  signature={v.signature} occurrences={v.count}: {v.what}")

    coverage = {
        "evaluations": int(report.evaluations),
        "distinct_nontrivial": int(report.distinct),
        "rule": rule,
        "samples": report.samples[:MAX_SAMPLES] or ["<no sample recorded>"],
        "exhaustive": bool(report.exhaustive),
        "counters": report.counters,
        "distinct_outcomes": len(report.outcomes),
        "caps_hit": report.caps,
        "notes": report.notes,
        "known_findings_seen": [v.signature for v in seen_known],
        "harness_errors": len(getattr(report, "harness_errors", [])),
        "violation_signatures": [v.signature for v in new],
    }
    if level_keys:
        coverage.update(level_keys)
    if extra:
        coverage.update(extra)
    evidence = {
        "property_id": prop, "tier": tier, "seed": int(seed), "level": level,
        "coverage": json.loads(jdump(coverage)),
        "assumptions": assumptions,
        "wall_s": round(time.time() - started, 3),
        "violations": len(new),
    }
    with open(os.path.join(EVIDENCE_DIR, f"{prop}.json"), "w") as f:
        json.dump(evidence, f, indent=1, sort_keys=True)

    for ln in lines:
        print(ln)
    herrs = getattr(report, "harness_errors", [])
    for h in herrs[:5]:
        print("HARNESS-ERROR: " + h.strip().splitlines()[0][:400], file=sys.stderr)
        print("  " + h.strip().splitlines()[-1][:400], file=sys.stderr)
    print(f"[{prop}] tier={tier} seed={seed} evaluations={report.evaluations} "
          f"distinct={report.distinct} exhaustive={report.exhaustive} "
          f"violations={len(new)} known={len(seen_known)} harness_errors={len(herrs)} wall={evidence['wall_s']}s")
    return 1 if new else (2 if herrs else 0)
