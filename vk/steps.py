# -*- coding: utf-8 -*-
"""Deterministic step counting for library code: sys.monitoring LINE events confined to the bromelia
package of the repository under test. `run_bounded(fn, limit)` executes fn() and aborts it (by raising
StepLimit *inside* the monitored frame) as soon as more than `limit` bromelia source lines were executed,
so that a non-terminating pure-Python loop becomes an ordinary, classified outcome."""
import os
import sys

from . import core


class StepLimit(BaseException):
    """Raised into library code when it exceeds its step budget (not an Exception on purpose)."""


class _Counter:
    count = 0
    limit = 1 << 62
    tripped = False


_C = _Counter()
_TOOL = None
_PREFIX = None


def _on_line(code, line):
    if not code.co_filename.startswith(_PREFIX):
        return sys.monitoring.DISABLE
    _C.count += 1
    if _C.count > _C.limit and not _C.tripped:
        _C.tripped = True
        raise StepLimit(f"more than {_C.limit} library lines executed")


def install():
    global _TOOL, _PREFIX
    if _TOOL is not None:
        return
    mon = sys.monitoring
    _PREFIX = os.path.join(os.path.abspath(core.REPO_DIR), "bromelia") + os.sep
    for tid in (mon.PROFILER_ID, mon.OPTIMIZER_ID, 3, 4):
        try:
            mon.use_tool_id(tid, "verif-steps")
            _TOOL = tid
            break
        except ValueError:
            continue
    if _TOOL is None:
        raise core.HarnessError("no free sys.monitoring tool id")
    mon.register_callback(_TOOL, mon.events.LINE, _on_line)
    mon.set_events(_TOOL, mon.events.LINE)


def run_bounded(fn, limit):
    """-> (outcome, value, steps): outcome in {"return", "raise", "steplimit"}."""
    install()
    _C.count, _C.limit, _C.tripped = 0, limit, False
    try:
        v = fn()
        return "return", v, _C.count
    except StepLimit as e:
        return "steplimit", e, _C.count
    except BaseException as e:  # noqa
        if _C.tripped:
            return "steplimit", e, _C.count
        return "raise", e, _C.count
    finally:
        _C.limit = 1 << 62


def count_only(fn):
    return run_bounded(fn, 1 << 62)
