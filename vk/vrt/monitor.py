# -*- coding: utf-8 -*-
"""Source-line scheduling points inside library code (sys.monitoring LINE events).

Two modes, selected by `SHARED`:
  * discovery (SHARED is None): every executed line of the watched modules is looked up in a pre-decoded
    table {line -> attribute/global names it loads or stores}; the run records, per name, which controlled
    threads touched it and whether any of them stored it. No scheduling point is generated.
  * exploration (SHARED is a set): a line that mentions a shared name is a scheduling point of the running
    thread *before* the line executes; every other location is switched off (DISABLE), so the steady-state
    cost is one callback per interesting line.
"""
import dis
import os
import sys

from .. import core

WATCHED_MODULES = ("transport.py", "setup.py", "statemachine.py", "process.py", "bromelia.py", "base.py",
                   "_internal_utils.py")
ATTR_OPS = {"LOAD_ATTR", "STORE_ATTR", "DELETE_ATTR", "LOAD_GLOBAL", "STORE_GLOBAL", "LOAD_METHOD", "LOAD_SUPER_ATTR"}
STORE_OPS = {"STORE_ATTR", "DELETE_ATTR", "STORE_GLOBAL"}

BASE_PROCESS_WIDE = {"hop_by_hop_identifiers", "end_to_end_identifiers"}
SHARED = None                  # None = discovery mode
EXTRA_POINT_FILES = set()      # basenames for which *every* line is a point (narrow scenarios only)
_RT = None
_TOOL = None
_PREFIX = None
_TABLES = {}                   # code -> {lineno: (names frozenset, stores frozenset)}
DISCOVERED = {}                # name -> {"threads": set, "stored_by": set, "lines": set}


MUTATORS = {"update", "pop", "append", "remove", "extend", "clear", "add", "insert", "setdefault", "popitem",
            "discard", "appendleft", "popleft"}


def _table(code):
    """{line: (names mentioned, names stored)}; a name counts as stored when it is the target of a
    STORE/DELETE, when a mutating container method is called on it (x.pending.update(..)) or when the line
    assigns through a subscript (x.routes[k] = v)."""
    t = _TABLES.get(code)
    if t is None:
        t = {}
        line = None
        prev = None
        for ins in dis.get_instructions(code):
            if ins.starts_line is not None:
                line = ins.starts_line
                prev = None
            if line is None:
                continue
            if ins.opname in ATTR_OPS and isinstance(ins.argval, str):
                names, stores = t.setdefault(line, (set(), set()))
                names.add(ins.argval)
                if ins.opname in STORE_OPS:
                    stores.add(ins.argval)
                if prev is not None and ins.argval in MUTATORS:
                    stores.add(prev)
                prev = ins.argval
            elif ins.opname in ("STORE_SUBSCR", "DELETE_SUBSCR") and line in t:
                names, stores = t[line]
                stores |= names
        _TABLES[code] = t
    return t


def _on_line(code, line):
    fn = code.co_filename
    if not fn.startswith(_PREFIX):
        return sys.monitoring.DISABLE
    base = fn[len(_PREFIX):]
    if base not in WATCHED_MODULES:
        return sys.monitoring.DISABLE
    rt = _RT
    if rt is None:
        return None
    t = rt.me()
    if t is None:
        return None
    entry = _table(code).get(line)
    if SHARED is None:
        if entry and rt.exploring and t.library:
            names, stores = entry
            if base == "base.py":
                # codec objects are handed from thread to thread through queues and are thread-confined in
                # between: only process-wide state of the codec module is a candidate
                names = {n for n in names if n in BASE_PROCESS_WIDE or (n in stores and n.isupper())}
            for n in names:
                d = DISCOVERED.setdefault(n, {"threads": set(), "stored_by": set(), "lines": set()})
                d["threads"].add(t.name)
                d["lines"].add(f"{base}:{line}")
                if n in stores:
                    d["stored_by"].add(t.name)
        return None
    if base in EXTRA_POINT_FILES:
        rt.point("line", f"{base}:{line}")
        return None
    if not entry or not (entry[0] & SHARED):
        return sys.monitoring.DISABLE
    rt.point("line", f"{base}:{line}")
    return None


RUNAWAY_CALLS = 150000       # bromelia function calls by one thread without reaching a scheduling point


class Runaway(BaseException):
    """Raised inside a library thread that computes forever without reaching a scheduling point."""


def _on_call(code, offset):
    if not code.co_filename.startswith(_PREFIX):
        return sys.monitoring.DISABLE
    rt = _RT
    if rt is None:
        return None
    t = rt.me()
    if t is None:
        return None
    t.calls_since_point = getattr(t, "calls_since_point", 0) + 1
    if t.calls_since_point > RUNAWAY_CALLS and not getattr(t, "runaway", False):
        t.runaway = True
        rt.runaways.append(t.name)
        raise Runaway(f"{t.name} executed {RUNAWAY_CALLS} library calls without reaching a scheduling point")
    return None


def install():
    global _TOOL, _PREFIX
    if _TOOL is not None:
        return
    mon = sys.monitoring
    _PREFIX = os.path.join(os.path.abspath(core.REPO_DIR), "bromelia") + os.sep
    for tid in (mon.DEBUGGER_ID, mon.COVERAGE_ID, 4, 5):
        try:
            mon.use_tool_id(tid, "verif-vrt")
            _TOOL = tid
            break
        except ValueError:
            continue
    if _TOOL is None:
        raise core.HarnessError("no free sys.monitoring tool id for the scheduler")
    mon.register_callback(_TOOL, mon.events.LINE, _on_line)
    mon.register_callback(_TOOL, mon.events.PY_START, _on_call)
    mon.set_events(_TOOL, mon.events.LINE | mon.events.PY_START)


def set_shared(names, extra_files=()):
    """Switch between discovery (None) and exploration (a set of names)."""
    global SHARED, EXTRA_POINT_FILES
    install()
    new = None if names is None else frozenset(names)
    if new != SHARED or set(extra_files) != EXTRA_POINT_FILES:
        SHARED = new
        EXTRA_POINT_FILES = set(extra_files)
        sys.monitoring.restart_events()


def attach(rt):
    global _RT
    install()
    _RT = rt


def detach(rt):
    global _RT
    if _RT is rt:
        _RT = None


def thread_started():
    pass


def discovered_shared(min_threads=2):
    """Names touched from >= 2 controlled threads in discovery runs, at least one of them storing it
    (or the name being a known container mutated through methods)."""
    out = {}
    for n, d in DISCOVERED.items():
        if len(d["threads"]) >= min_threads and d["stored_by"]:
            out[n] = {"threads": sorted(d["threads"]), "stored_by": sorted(d["stored_by"]), "lines": sorted(d["lines"])[:6],
                      "files": sorted({l.split(":")[0] for l in d["lines"]})}
    return out


def reset_discovery():
    DISCOVERED.clear()
