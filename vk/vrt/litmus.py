# -*- coding: utf-8 -*-
"""Litmus programs with known answers: the schedule explorer is tested before it is trusted.
Each litmus states at which deviation bound its bug must (not) be found and the exact number of executions
the search performs, so an accidental change of the search order or of the candidate rule is noticed."""
import sys
import traceback

from .. import core
from . import explore, shims, sched


class Box:
    pass


class Litmus(explore.Scenario):
    expect = {}          # bound -> (found?, executions)
    explore_from_start = True

    def oracle(self, rt):
        errs = []
        if rt.verdict != "done":
            errs.append((f"LIT:{self.name}:{rt.verdict}", f"verdict {rt.verdict}"))
        bad = self.check(rt)
        if bad:
            errs.append((f"LIT:{self.name}:bad", bad))
        return errs

    def check(self, rt):
        return None

    def outcome(self, rt):
        return (rt.verdict, repr(rt.observations.get("out")))


class LostUpdate(Litmus):
    name = "lost-update"
    expect = {0: (False, 1), 1: (True, None)}

    def driver(self, rt):
        T = shims.Thread
        box = Box(); box.x = 0

        def inc():
            tmp = box.x
            rt.point("line", "between-load-and-store")
            box.x = tmp + 1
        ts = [T(target=inc, name=f"w{i}") for i in range(2)]
        for t in ts:
            t.start()
        for t in ts:
            t.join()
        rt.observations["out"] = box.x
        rt.stop()

    def check(self, rt):
        return None if rt.observations.get("out") == 2 else f"x == {rt.observations.get('out')}"


class LockedUpdate(LostUpdate):
    name = "locked-update"
    expect = {0: (False, 1), 1: (False, None), 2: (False, None)}

    def driver(self, rt):
        T = shims.Thread
        box = Box(); box.x = 0
        lock = shims.Lock()

        def inc():
            lock.acquire()
            tmp = box.x
            rt.point("line", "between-load-and-store")
            box.x = tmp + 1
            lock.release()
        ts = [T(target=inc, name=f"w{i}") for i in range(2)]
        for t in ts:
            t.start()
        for t in ts:
            t.join()
        rt.observations["out"] = box.x
        rt.stop()


class LockOrder(Litmus):
    name = "ab-ba-deadlock"
    expect = {0: (False, 1), 1: (True, None)}

    def driver(self, rt):
        T = shims.Thread
        a, b = shims.Lock(), shims.Lock()

        def one():
            a.acquire(); b.acquire(); b.release(); a.release()

        def two():
            b.acquire(); a.acquire(); a.release(); b.release()
        ts = [T(target=one, name="ab"), T(target=two, name="ba")]
        for t in ts:
            t.start()
        for t in ts:
            t.join()
        rt.stop()


class LostWakeup(Litmus):
    """A waiter that checks a condition and then waits on an Event that the setter clears again."""
    name = "lost-wakeup"
    expect = {0: (False, 1), 1: (True, None)}

    def driver(self, rt):
        T = shims.Thread
        ev = shims.Event()
        box = Box(); box.ready = False

        def waiter():
            if not box.ready:
                rt.point("line", "checked-not-ready")
                ev.wait()
            rt.observations["out"] = "woke"

        def setter():
            box.ready = True
            ev.set()
            ev.clear()
        ts = [T(target=setter, name="setter"), T(target=waiter, name="waiter")]
        for t in ts:
            t.start()
        for t in ts:
            t.join()
        rt.stop()


class TimedWaitIdle(Litmus):
    """A timed wait must time out only when nothing else can run: the setter always wins by default."""
    name = "timed-wait"
    expect = {0: (False, 1)}

    def driver(self, rt):
        T = shims.Thread
        ev = shims.Event()

        def waiter():
            rt.observations["out"] = ev.wait(timeout=1.0)

        def setter():
            for _ in range(5):
                rt.point("line", "busy")
            ev.set()
        ts = [T(target=waiter, name="waiter"), T(target=setter, name="setter")]
        for t in ts:
            t.start()
        for t in ts:
            t.join()
        rt.stop()

    def check(self, rt):
        return None if rt.observations.get("out") is True else "timed out although the setter was runnable"


class TimeoutFires(Litmus):
    name = "timeout-fires"
    expect = {0: (False, 1)}

    def driver(self, rt):
        ev = shims.Event()
        t0 = rt.now
        r = ev.wait(timeout=2.5)
        rt.observations["out"] = (r, rt.now - t0)
        rt.stop()

    def check(self, rt):
        return None if rt.observations.get("out") == (False, 2.5) else f"{rt.observations.get('out')}"


class QueueOrder(Litmus):
    name = "queue-order"
    expect = {0: (False, 1), 1: (False, None)}

    def driver(self, rt):
        T = shims.Thread
        q = shims.Queue()
        got = []

        def prod():
            for i in range(3):
                q.put(i)

        def cons():
            for _ in range(3):
                got.append(q.get())
        ts = [T(target=cons, name="cons"), T(target=prod, name="prod")]
        for t in ts:
            t.start()
        for t in ts:
            t.join()
        rt.observations["out"] = tuple(got)
        rt.stop()

    def check(self, rt):
        return None if rt.observations.get("out") == (0, 1, 2) else f"{rt.observations.get('out')}"


class LateRegistration(Litmus):
    """Post a request, then register the waiter; a poller that wakes on a timer answers it. Losing the
    answer needs the poster to be descheduled across a timer period: one `stall` deviation."""
    name = "late-registration"
    expect = {0: (False, 1), 1: (True, None)}
    idle_window = 6.0
    horizon = 40.0

    def driver(self, rt):
        T = shims.Thread
        tm = shims.make_time()
        q = shims.Queue()
        box = Box(); box.waiters = {}

        def poster():
            q.put("req")
            rt.point("line", "posted-not-yet-registered")
            ev = shims.Event()
            box.waiters["req"] = ev
            ev.wait()
            rt.observations["out"] = "answered"

        def poller():
            while True:
                tm.sleep(0.25)
                if not q.empty():
                    r = q.get()
                    ev = box.waiters.get(r)
                    if ev is not None:
                        ev.set()
        p = T(target=poller, name="poller")
        p.start()
        w = T(target=poster, name="poster")
        w.start()
        w.join()
        rt.stop()


class Spinner(Litmus):
    """A thread that spins on a flag without ever blocking must not starve the thread that sets it."""
    name = "spinner"
    expect = {0: (False, 1)}
    max_points = 5000

    def driver(self, rt):
        T = shims.Thread
        box = Box(); box.go = False

        def spin():
            while not box.go:
                rt.point("line", "spin")
            rt.observations["out"] = "released"

        def setter():
            box.go = True
        ts = [T(target=spin, name="spin"), T(target=setter, name="setter")]
        ts[0].start()
        # the driver itself yields so that the spinner gets the baton before the setter exists
        for _ in range(3):
            rt.point("line", "driver")
        ts[1].start()
        for t in ts:
            t.join()
        rt.stop()

    def check(self, rt):
        return None if rt.observations.get("out") == "released" else "spinner never released"


ALL = [LostUpdate, LockedUpdate, LockOrder, LostWakeup, TimedWaitIdle, TimeoutFires, QueueOrder, Spinner,
       LateRegistration]

# exact execution counts of the search (regression guard); filled from a known-good run
EXECUTIONS = {("lost-update", 1): 13, ("locked-update", 1): 21, ("locked-update", 2): 161,
              ("ab-ba-deadlock", 1): 25, ("lost-wakeup", 1): 13, ("queue-order", 1): 17,
              ("late-registration", 1): 13}


def run_litmus(cls, verbose=False):
    failures = []
    scn = cls()
    scn.shared = frozenset()
    explore.selfcheck_determinism(scn)
    for bound, (should_find, nexec) in sorted(cls.expect.items()):
        rep = core.Report("LIT")
        stats = {"executions": 0, "points": 0}
        s2 = cls()
        s2.shared = frozenset()
        explore.explore_subtree(s2, [()], bound, rep, stats)
        found = bool(rep.violations)
        key = (cls.name, bound)
        if verbose:
            print(f"  litmus {cls.name} d={bound}: executions={stats['executions']} found={found} "
                  f"outcomes={len(rep.outcomes)}")
        if found != should_find:
            failures.append(f"{cls.name} d={bound}: expected found={should_find}, got {found} "
                            f"({sorted(rep.violations)})")
        want = EXECUTIONS.get(key, nexec)
        if want is not None and stats["executions"] != want:
            failures.append(f"{cls.name} d={bound}: {stats['executions']} executions, expected {want}")
    return failures


def main(verbose=True):
    core.bind_repo()
    failed = 0
    for cls in ALL:
        try:
            fs = run_litmus(cls, verbose)
        except BaseException:  # noqa
            fs = [traceback.format_exc()]
        for f in fs:
            failed += 1
            print(f"selftest litmus FAILED: {f}", file=sys.stderr)
    print(f"selftest litmus: {len(ALL)} programs, failed={failed}")
    return failed
