# -*- coding: utf-8 -*-
"""Fake TCP network + selectors on the baton scheduler.

Semantics copied from Linux loopback behaviour for the calls the library makes (non-blocking sockets):
connect_ex -> EINPROGRESS; send(b"") -> 0 once connected, EAGAIN while the connect is pending,
ECONNREFUSED once then EPIPE when the connect was refused; recv -> data | b"" at EOF | EAGAIN when nothing
is available; a selector's modify() replaces the key (and its data); a socket is readable when data or EOF
is pending (or, for a listening socket, a connection is pending) and writable once connected (or failed).

The *peer* is scenario code that talks to the same Net object through a PeerEnd (no socket of its own).
What the environment may answer differently (short reads, short writes) is decided by `Net.read_plan` /
`Net.write_plan`, which the explorer drives.
"""
import collections
import errno
import types

from . import shims

EVENT_READ, EVENT_WRITE = 1, 2
SelectorKey = collections.namedtuple("SelectorKey", ["fileobj", "fd", "events", "data"])


class Net:
    """The network of one execution."""

    def __init__(self):
        self.listeners = {}          # (ip, port) -> FakeSocket (listening)
        self.connections = []        # Conn objects, in creation order
        self.pending_clients = collections.deque()   # Conn objects awaiting the peer's accept/refuse
        self.next_fd = 10
        self.max_write = None        # callable(conn, nbytes) -> how many bytes this send() accepts
        self.max_read = None         # callable(conn, available) -> how many bytes this recv() returns
        self.sockets = []
        self.selectors = []
        self.partial_writes = False  # when True every send() of >1 byte is an environment choice point

    def fd(self):
        self.next_fd += 1
        return self.next_fd


class Conn:
    """One TCP connection as seen from the node (library) side."""

    def __init__(self, net):
        self.net = net
        self.state = "pending"       # pending | established | refused | closed
        self.inbox = bytearray()     # bytes the peer sent, not yet read by the node
        self.eof = False             # peer closed its side
        self.outbox = bytearray()    # every byte the node's send() accepted, in order
        self.writes = []             # sizes accepted per send() call
        self.reads = []              # sizes returned per recv() call
        self.node_closed = False
        self.refused_reported = False


class FakeSocket:
    def __init__(self, family=None, type_=None, proto=0):
        rt = shims.current()
        self.net = rt.net
        self._fd = self.net.fd()
        self.blocking = True
        self.conn = None
        self.listening = False
        self.addr = None
        self.backlog = collections.deque()
        self.closed = False
        self.net.sockets.append(self)

    # -- plumbing --------------------------------------------------------------------------------------
    def fileno(self):
        return self._fd if not self.closed else -1

    def setblocking(self, flag):
        self.blocking = bool(flag)

    def setsockopt(self, *a):
        pass

    def getsockname(self):
        return self.addr or ("0.0.0.0", 0)

    def __repr__(self):
        return f"<FakeSocket fd={self._fd}>"

    # -- server side -------------------------------------------------------------------------------------
    def bind(self, addr):
        shims.current().point("sock.bind", str(addr[1]))
        if addr in self.net.listeners and not self.net.listeners[addr].closed:
            raise OSError(errno.EADDRINUSE, "Address already in use")
        self.addr = addr

    def listen(self, backlog=0):
        shims.current().point("sock.listen", "")
        self.listening = True
        self.net.listeners[self.addr] = self

    def accept(self):
        shims.current().point("sock.accept", "")
        if not self.backlog:
            raise BlockingIOError(errno.EAGAIN, "Resource temporarily unavailable")
        conn = self.backlog.popleft()
        s = FakeSocket()
        s.conn = conn
        conn.state = "established"
        return s, ("127.0.0.9", 40000)

    # -- client side --------------------------------------------------------------------------------------
    def connect_ex(self, addr):
        shims.current().point("sock.connect_ex", str(addr[1]))
        self.conn = Conn(self.net)
        self.conn.remote = addr
        self.net.connections.append(self.conn)
        self.net.pending_clients.append(self.conn)
        return errno.EINPROGRESS

    # -- data -------------------------------------------------------------------------------------------
    def send(self, data):
        rt = shims.current()
        rt.point("sock.send", str(len(data)))
        c = self.conn
        if self.closed or c is None:
            raise OSError(errno.EBADF, "Bad file descriptor")
        if c.state == "pending":
            raise BlockingIOError(errno.EAGAIN, "Resource temporarily unavailable")
        if c.state == "refused":
            if not c.refused_reported:
                c.refused_reported = True
                raise ConnectionRefusedError(errno.ECONNREFUSED, "Connection refused")
            raise BrokenPipeError(errno.EPIPE, "Broken pipe")
        if c.state == "closed" or c.eof and c.reset_on_write:
            raise BrokenPipeError(errno.EPIPE, "Broken pipe")
        if c.tx_full_until > rt.now:
            raise BlockingIOError(errno.EAGAIN, "Resource temporarily unavailable")
        n = len(data)
        if n > 1 and self.net.partial_writes:
            # environment answer: how many bytes the kernel accepts (default: all)
            opt = rt.env_choice("env.write", str(n), ["all", "1-byte", "all-but-1"])
            n = (n, 1, n - 1)[opt]
            if opt:
                # a short write means the kernel's buffer is full: the socket is not writable again until
                # the peer has drained it (Linux semantics; DRAIN virtual seconds later)
                c.tx_full_until = rt.now + DRAIN
        elif n and self.net.max_write is not None:
            n = max(1, min(n, self.net.max_write(c, n)))
        c.outbox += data[:n]
        c.writes.append(n)
        return n

    def recv(self, bufsize):
        rt = shims.current()
        rt.point("sock.recv", "")
        c = self.conn
        if self.closed or c is None:
            raise OSError(errno.EBADF, "Bad file descriptor")
        if c.state == "refused":
            raise ConnectionRefusedError(errno.ECONNREFUSED, "Connection refused")
        if not c.inbox:
            if c.reset and not c.reset_reported:
                c.reset_reported = True
                raise ConnectionResetError(errno.ECONNRESET, "Connection reset by peer")
            if c.eof:
                c.reads.append(0)
                return b""
            raise BlockingIOError(errno.EAGAIN, "Resource temporarily unavailable")
        n = min(len(c.inbox), bufsize)
        if self.net.max_read is not None:
            n = max(1, min(n, self.net.max_read(c, n)))
        out = bytes(c.inbox[:n])
        del c.inbox[:n]
        c.reads.append(n)
        return out

    def close(self):
        shims.current().point("sock.close", "")
        self.closed = True
        if self.conn is not None:
            self.conn.node_closed = True
            if self.conn.state in ("established", "pending"):
                self.conn.state = "closed"
        if self.listening:
            self.listening = False

    # readiness as a selector sees it
    def readable(self):
        if self.closed:
            return False
        if self.listening:
            return bool(self.backlog)
        c = self.conn
        if c is None:
            return False
        return bool(c.inbox) or c.eof or c.state == "refused"

    def writable(self):
        if self.closed or self.listening:
            return False
        c = self.conn
        if c is not None and c.tx_full_until > shims.current().now:
            return False
        return c is not None and c.state in ("established", "refused")


class SctpStatus:
    """What pysctp's sctpsocket.get_status() returns, reduced to what the library reads."""
    state_EMPTY, state_CLOSED, state_COOKIE_WAIT, state_COOKIE_ECHOED, state_ESTABLISHED = 0, 1, 2, 3, 4
    state_SHUTDOWN_PENDING, state_SHUTDOWN_SENT, state_SHUTDOWN_RECEIVED, state_SHUTDOWN_ACK_SENT = 5, 6, 7, 8

    def __init__(self, state):
        self.state = state


class FakeSctpSocket(FakeSocket):
    """One-to-one style SCTP socket of pysctp (`sctp.sctpsocket_tcp`) over the same fake network: connect() is
    issued in blocking mode by the library (it returns once the peer has accepted, raises when refused);
    sctp_send/sctp_recv move bytes like send/recv (message boundaries are not modelled: the library treats the
    association as a byte stream)."""

    def accept(self):
        shims.current().point("sock.accept", "")
        if not self.backlog:
            raise BlockingIOError(errno.EAGAIN, "Resource temporarily unavailable")
        conn = self.backlog.popleft()
        s = FakeSctpSocket()
        s.conn = conn
        conn.state = "established"
        return s, ("127.0.0.9", 40000)

    def connect(self, addr):
        rt = shims.current()
        rt.point("sock.connect", str(addr[1]))
        self.conn = c = Conn(self.net)
        c.remote = addr
        self.net.connections.append(c)
        self.net.pending_clients.append(c)
        if self.blocking:
            if c.state == "pending":
                rt.block("sock.connect", str(addr[1]), pred=lambda: c.state != "pending", timeout=SCTP_CONNECT_TIMEOUT)
            if c.state == "pending":
                c.state = "refused"
                c.refused_reported = True
                raise TimeoutError(errno.ETIMEDOUT, "Connection timed out")
            if c.state == "refused":
                c.refused_reported = True
                raise ConnectionRefusedError(errno.ECONNREFUSED, "Connection refused")
            return None
        raise BlockingIOError(errno.EINPROGRESS, "Operation now in progress")

    def sctp_send(self, msg, to=("", 0), ppid=0, flags=0, stream=0, timetolive=0, context=0, record_file_prefix="RECORD_sctp_traffic", datalogging=False):
        return self.send(msg)

    def sctp_recv(self, maxlen):
        data = self.recv(maxlen)
        return (("127.0.0.2", 0), 0x80, data, None)

    def get_status(self):
        c = self.conn
        if self.closed or c is None or c.state in ("closed", "refused"):
            return SctpStatus(SctpStatus.state_CLOSED)
        if c.state == "pending":
            return SctpStatus(SctpStatus.state_COOKIE_WAIT)
        if c.eof:
            return SctpStatus(SctpStatus.state_SHUTDOWN_RECEIVED)
        return SctpStatus(SctpStatus.state_ESTABLISHED)


SCTP_CONNECT_TIMEOUT = 10.0     # virtual seconds a blocking SCTP connect() waits for a silent peer (kernel: INIT retransmissions)


def make_sctp_modules():
    """Stand-ins for pysctp's `sctp` and `_sctp` modules (not installed in this sandbox)."""
    m = types.ModuleType("sctp")
    m.sctpsocket_tcp = FakeSctpSocket
    m.sctpsocket = FakeSctpSocket
    m.status = SctpStatus
    m.__verif_fake__ = True
    u = types.ModuleType("_sctp")
    u.getconstant = lambda name: {"IPPROTO_SCTP": 132}.get(name, 0)
    u.__verif_fake__ = True
    return m, u


Conn.reset_on_write = False
Conn.reset = False
Conn.reset_reported = False
Conn.tx_full_until = -1.0
DRAIN = 0.5


class FakeSelector:
    def __init__(self):
        self._map = {}
        self.closed = False
        self.net = shims.current().net
        self.net.selectors.append(self)

    def register(self, fileobj, events, data=None):
        shims.current().point("sel.register", str(events))
        if fileobj in self._map:
            raise KeyError(f"{fileobj!r} is already registered")
        key = SelectorKey(fileobj, fileobj.fileno(), events, data)
        self._map[fileobj] = key
        return key

    def unregister(self, fileobj):
        shims.current().point("sel.unregister", "")
        return self._map.pop(fileobj)          # KeyError when absent, like the real one

    def modify(self, fileobj, events, data=None):
        shims.current().point("sel.modify", str(events))
        if fileobj not in self._map:
            raise KeyError(f"{fileobj!r} is not registered")
        key = SelectorKey(fileobj, fileobj.fileno(), events, data)
        self._map[fileobj] = key
        return key

    def get_map(self):
        return dict(self._map)

    def get_key(self, fileobj):
        return self._map[fileobj]

    def close(self):
        self.closed = True
        self._map.clear()

    def _ready(self):
        out = []
        for sock, key in list(self._map.items()):
            mask = 0
            if key.events & EVENT_READ and sock.readable():
                mask |= EVENT_READ
            if key.events & EVENT_WRITE and sock.writable():
                mask |= EVENT_WRITE
            if mask:
                out.append((key, mask))
        return out

    def select(self, timeout=None):
        rt = shims.current()
        rt.point("sel.select", "")
        ready = self._ready()
        if ready:
            return ready
        if timeout is not None and timeout <= 0:
            return []
        deadline = None if timeout is None else rt.now + timeout
        while True:
            t = None if deadline is None else deadline - rt.now
            drains = [sock.conn.tx_full_until - rt.now for sock, key in self._map.items()
                      if key.events & EVENT_WRITE and sock.conn is not None and sock.conn.tx_full_until > rt.now]
            if drains:
                t = min(drains) if t is None else min(t, min(drains))
            rt.block("sel.select", "", pred=lambda: bool(self._ready()), timeout=t)
            ready = self._ready()
            if ready or self.closed or (deadline is not None and rt.now >= deadline) or (t is None):
                return ready


def make_selectors():
    m = types.ModuleType("selectors_shim")
    m.DefaultSelector = FakeSelector
    m.SelectSelector = FakeSelector
    m.EVENT_READ, m.EVENT_WRITE = EVENT_READ, EVENT_WRITE
    m.SelectorKey = SelectorKey
    return m


def make_socket():
    import socket as real
    m = types.ModuleType("socket_shim")
    for k in dir(real):
        if k.isupper():
            setattr(m, k, getattr(real, k))
    m.socket = FakeSocket
    m.getfqdn = real.getfqdn
    m.gethostbyname = real.gethostbyname
    m.error = OSError
    m.timeout = TimeoutError
    return m


# -----------------------------------------------------------------------------------------------------------
# the peer's view
# -----------------------------------------------------------------------------------------------------------

class PeerEnd:
    """What scenario (peer) code uses. Every call is a scheduling point of the peer thread."""

    def __init__(self, rt):
        self.rt = rt
        self.net = rt.net
        self.conn = None
        self.read_pos = 0

    # client-role node: the node connects to us
    def wait_connect(self, timeout=30.0):
        self.rt.point("peer.wait_connect", "")
        if not self.net.pending_clients:
            self.rt.block("peer.wait_connect", "", pred=lambda: bool(self.net.pending_clients), timeout=timeout)
        if not self.net.pending_clients:
            return None
        self.conn = self.net.pending_clients.popleft()
        return self.conn

    def accept(self):
        self.rt.point("peer.accept", "")
        self.conn.state = "established"

    def refuse(self):
        self.rt.point("peer.refuse", "")
        self.conn.state = "refused"

    # server-role node: we connect to the node
    def connect(self, addr, timeout=30.0):
        self.rt.point("peer.connect", str(addr[1]))

        def listening():
            s = self.net.listeners.get(addr)
            return s is not None and s.listening
        if not listening():
            self.rt.block("peer.connect", "", pred=listening, timeout=timeout)
        if not listening():
            return None
        self.conn = Conn(self.net)
        self.net.connections.append(self.conn)
        self.net.listeners[addr].backlog.append(self.conn)
        return self.conn

    def send(self, data):
        self.rt.point("peer.send", str(len(data)))
        if self.conn.state in ("closed",) or self.conn.node_closed:
            return False
        self.conn.inbox += data
        return True

    def close(self, reset=False):
        """Orderly close (FIN: the node's recv() returns b"") or, with reset=True, an abortive one (RST: the
        node's recv() raises ConnectionResetError once, its send() raises BrokenPipeError)."""
        self.rt.point("peer.close", "rst" if reset else "")
        if reset:
            self.conn.reset = True
            self.conn.reset_on_write = True
            del self.conn.inbox[:]
        self.conn.eof = True

    def received(self):
        """All bytes the node wrote so far (no scheduling point: an observation)."""
        return bytes(self.conn.outbox)

    def wait_bytes(self, n, timeout=30.0):
        """Blocks until the node has written at least n bytes in total."""
        self.rt.point("peer.wait_bytes", str(n))
        if len(self.conn.outbox) < n:
            self.rt.block("peer.wait_bytes", str(n), pred=lambda: len(self.conn.outbox) >= n or self.conn.node_closed,
                          timeout=timeout)
        return len(self.conn.outbox) >= n

    def wait_for(self, pred, label="cond", timeout=30.0):
        self.rt.point("peer.wait_for", label)
        if not pred():
            self.rt.block("peer.wait_for", label, pred=pred, timeout=timeout)
        return bool(pred())
