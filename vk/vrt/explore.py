# -*- coding: utf-8 -*-
"""SCHED - stateless, deviation-bounded schedule explorer (CHESS-style) over real threads.

An execution is determined by its *deviations*: a dict {scheduling-point index -> candidate index}; every
other point takes the default candidate of the deterministic fair scheduler. explore() enumerates every
deviation set of size <= bound (deviations in increasing point order, each placed after the previous one),
runs each on fresh objects, applies the scenario's oracle to every execution and reports the bound it
completed. Replays are checked: a prescribed choice that does not exist is a harness error.
"""
import time

from .. import core
from . import fakenet, monitor, patch, sched, shims


class Scenario:
    """Subclass and override. `params` must be JSON-able (it goes into replay artefacts)."""
    name = "scenario"
    shared = None            # set of attribute names that are line-level scheduling points (None = none)
    extra_point_files = ()
    horizon = 120.0
    max_points = 60000
    timer_deviation = False
    idle_window = None
    real_timeout = 60.0
    explore_from_start = False
    auto_shared = False      # extend `shared` by the names the discovery pass finds on the default schedule
    discovered_extra = None  # (filled in) the names added that way

    def __init__(self, **params):
        self.params = params

    def driver(self, rt):
        raise NotImplementedError

    def oracle(self, rt):
        """-> [(signature, text)] for this finished execution."""
        return []

    def outcome(self, rt):
        """A hashable summary of what this execution observed (for the distinct-outcome count)."""
        return rt.verdict


def extend_shared(scn):
    """The reviewed constant `scn.shared` names the attributes that are shared by design; a change to the
    library can introduce a *new* attribute that two threads touch. One discovery run of the default schedule
    (deterministic, so replays see the same set) adds every name of the watched modules that >= 2 controlled
    threads touched with at least one store. Names seen only in base.py (codec objects, thread-confined) are
    left to the scenarios that study them (C15)."""
    if not scn.auto_shared or scn.discovered_extra is not None:
        return
    scn.discovered_extra = ()
    found = discover(scn)
    extra = sorted(n for n, d in found.items()
                   if n not in (scn.shared or ()) and d["files"] != ["base.py"])
    scn.discovered_extra = tuple(extra)
    scn.shared = frozenset(scn.shared or ()) | set(extra)


def execute(scn, choices=None):
    extend_shared(scn)
    rt = sched.Runtime(choices=choices, max_points=scn.max_points, horizon=scn.horizon,
                       timer_deviation=scn.timer_deviation)
    if scn.idle_window is not None:
        rt.idle_window = scn.idle_window
    rt.net = fakenet.Net()
    rt.scenario = scn
    rt.exploring = bool(scn.explore_from_start)
    shims.set_runtime(rt)
    patch.install()
    patch.fresh_primitives()
    monitor.set_shared(scn.shared if scn.shared is not None else frozenset(), scn.extra_point_files)
    try:
        rt.run(lambda: scn.driver(rt), real_timeout=scn.real_timeout)
    finally:
        shims.set_runtime(None)
        patch.restore_primitives()
    if rt.verdict == "replay-divergence":
        raise core.HarnessError(f"{scn.name}: replay diverged: {rt.replay_error}")
    if rt.verdict == "harness-timeout":
        raise core.HarnessError(f"{scn.name}: execution did not finish in {scn.real_timeout}s of real time "
                                f"(choices={choices}); last points {rt.trace_brief()[-6:]}")
    if rt.leaked:
        raise core.HarnessError(f"{scn.name}: threads did not unwind: {rt.leaked}")
    return rt


def discover(scn, rep=None):
    """Runs the default schedule in discovery mode and returns the shared-name table."""
    saved = scn.shared
    monitor.reset_discovery()
    rt = sched.Runtime(max_points=scn.max_points, horizon=scn.horizon)
    rt.net = fakenet.Net()
    rt.scenario = scn
    shims.set_runtime(rt)
    patch.install()
    patch.fresh_primitives()
    monitor.set_shared(None)
    try:
        rt.run(lambda: scn.driver(rt), real_timeout=scn.real_timeout)
    finally:
        shims.set_runtime(None)
        patch.restore_primitives()
    scn.shared = saved
    return monitor.discovered_shared()


def successors(rt, dev):
    """Deviation tuples extending `dev` by one deviation placed after dev's last one."""
    start = (dev[-1][0] + 1) if dev else 0
    out = []
    for i in range(start, len(rt.points)):
        p = rt.points[i]
        if not p.explorable:
            continue
        for alt in range(1, len(p.cands)):
            out.append(dev + ((i, alt),))
    return out


def witness(scn, dev, rt):
    return {"scenario": scn.name, "params": scn.params, "choices": [list(x) for x in dev],
            "verdict": rt.verdict, "trace_tail": rt.trace_brief()[-12:]}


def run_one(scn, dev, rep, stats):
    rt = execute(scn, dict(dev))
    stats["executions"] += 1
    stats["points"] += len(rt.points)
    rep.outcome(scn.outcome(rt))
    for sig, text in scn.oracle(rt):
        rep.violation(sig, text, witness(scn, dev, rt))
    return rt


def explore_subtree(scn, roots, bound, rep, stats, budget_s=None, t0=None):
    """Depth-first over deviation tuples starting from `roots` (each root is itself executed)."""
    stack = list(reversed(roots))
    while stack:
        if budget_s is not None and time.time() - t0 > budget_s:
            rep.cap(f"{scn.name}: time budget {budget_s}s reached with {len(stack)} deviation sets unexplored")
            return
        dev = stack.pop()
        rt = run_one(scn, dev, rep, stats)
        if len(dev) < bound:
            stack.extend(reversed(successors(rt, dev)))


def selfcheck_determinism(scn):
    a = execute(scn)
    b = execute(scn)
    ta, tb = a.trace_brief(), b.trace_brief()
    if ta != tb or scn.outcome(a) != scn.outcome(b):
        for i, (x, y) in enumerate(zip(ta, tb)):
            if x != y:
                raise core.HarnessError(f"{scn.name}: default schedule is not deterministic at point {i}: {x} vs {y}")
        raise core.HarnessError(f"{scn.name}: default schedule is not deterministic (lengths {len(ta)} vs {len(tb)})")
    return a
