# -*- coding: utf-8 -*-
"""Substitutes the shim modules into every bromelia module's namespace (after import): no source hooks.
Both import styles are covered: `import threading` (module attribute) and `from threading import Event`
(the imported primitive itself)."""
import sys

from . import fakenet, shims

_ORIGINALS = []
_SHIMS = None


def shim_modules():
    global _SHIMS
    if _SHIMS is None:
        _SHIMS = {
            "threading": shims.make_threading(),
            "queue": shims.make_queue(),
            "time": shims.make_time(),
            "random": shims.make_random(),
            "selectors": fakenet.make_selectors(),
            "socket": fakenet.make_socket(),
            "os": shims.make_os(),
            "datetime": shims.make_datetime(),
        }
    return _SHIMS


def install():
    """Idempotent. Returns the number of substitutions made."""
    import datetime
    import os
    import queue
    import random
    import selectors
    import socket
    import threading
    import time
    if _ORIGINALS:
        return 0
    sm = shim_modules()
    # pysctp is not installed here: the SCTP transport classes import it by name when they are instantiated
    if "sctp" not in sys.modules and "_sctp" not in sys.modules:
        sys.modules["sctp"], sys.modules["_sctp"] = fakenet.make_sctp_modules()
    real = {"threading": threading, "queue": queue, "time": time, "random": random, "selectors": selectors,
            "socket": socket, "os": os, "datetime": datetime}
    direct = {}
    for modname, rm in real.items():
        for attr in dir(sm[modname]):
            if attr.startswith("_"):
                continue
            if hasattr(rm, attr):
                try:
                    direct[id(getattr(rm, attr))] = (getattr(rm, attr), getattr(sm[modname], attr))
                except Exception:  # noqa
                    pass
    count = 0
    for name, mod in list(sys.modules.items()):
        if not (name == "bromelia" or name.startswith("bromelia.")) or mod is None:
            continue
        d = mod.__dict__
        for k, v in list(d.items()):
            for modname, rm in real.items():
                if modname == "os" and name != "bromelia.base":
                    continue            # only the identifier source; paths/pids stay real
                if modname == "datetime" and name not in ("bromelia._internal_utils", "bromelia.setup"):
                    continue            # only the utcnow() users; isinstance checks in types.py stay real
                if v is rm:
                    _ORIGINALS.append((d, k, v))
                    d[k] = sm[modname]
                    count += 1
                    break
            else:
                hit = direct.get(id(v))
                if hit is not None and hit[0] is v and isinstance(v, type) or (hit is not None and callable(v) and hit[0] is v
                                                                               and k in ("sleep", "urandom")):
                    _ORIGINALS.append((d, k, v))
                    d[k] = hit[1]
                    count += 1
    return count


_LOCK_SITES = None


def real_lock_sites():
    """(owner object, attribute name, original) for every real threading lock/event found as a module global
    or a class attribute of a bromelia module (created at import time, before the shims exist)."""
    global _LOCK_SITES
    if _LOCK_SITES is None:
        import threading
        kinds = (type(threading.Lock()), type(threading.RLock()), threading.Event, threading.Condition,
                 threading.Semaphore, threading.Barrier)
        sites = []
        for name, mod in list(sys.modules.items()):
            if not (name == "bromelia" or name.startswith("bromelia.")) or mod is None:
                continue
            for k, v in list(mod.__dict__.items()):
                if isinstance(v, kinds):
                    sites.append((mod, k, v))
                elif isinstance(v, type) and getattr(v, "__module__", "") == name:
                    for ck, cv in list(vars(v).items()):
                        if isinstance(cv, kinds):
                            sites.append((v, ck, cv))
        _LOCK_SITES = sites
    return _LOCK_SITES


def fresh_primitives():
    """Give every import-time lock/event of the library a shim instance for the coming execution."""
    import threading
    for owner, attr, orig in real_lock_sites():
        if isinstance(orig, threading.Event):
            setattr(owner, attr, shims.Event())
        elif isinstance(orig, threading.Barrier):
            setattr(owner, attr, shims.Barrier(orig.parties))
        else:
            setattr(owner, attr, shims.Lock())


def restore_primitives():
    for owner, attr, orig in real_lock_sites():
        setattr(owner, attr, orig)


def uninstall():
    while _ORIGINALS:
        d, k, v = _ORIGINALS.pop()
        d[k] = v
    for name in ("sctp", "_sctp"):
        if getattr(sys.modules.get(name), "__verif_fake__", False):
            del sys.modules[name]
