# -*- coding: utf-8 -*-
"""A real `Diameter` node (real DiameterAssociation, TcpClient/TcpServer, PeerStateMachine) on the virtual
runtime, plus the scripted peer's vocabulary. The connection is always brought up by running the *real*
handshake; scenarios call `rt.begin_exploration()` afterwards so that the deviation budget applies to the
behaviour under study and not to the handshake."""
from . import fakenet, shims
from ..ref import refcodec

LOCAL = {"host": "local.example", "realm": "realm.local", "ip": "127.0.0.1", "port": 3868}
PEER = {"host": "peer.example", "realm": "realm.peer", "ip": "127.0.0.2", "port": 3869}
S6A, GX = 16777251, 16777238
VENDOR_3GPP = 10415

TICK = 0.25


def config(role, apps=(), watchdog=30, transport="tcp", port_offset=0):
    cfg = _config(role, apps, watchdog, transport)
    cfg["LOCAL_NODE_PORT"] += port_offset
    cfg["PEER_NODE_PORT"] += port_offset
    return cfg


def _config(role, apps=(), watchdog=30, transport="tcp"):
    return {
        "MODE": role.upper(),
        "TRANSPORT_TYPE": transport.upper(),
        "APPLICATIONS": [{"vendor_id": VENDOR_3GPP.to_bytes(4, "big"), "app_id": a.to_bytes(4, "big")} for a in apps],
        "LOCAL_NODE_HOSTNAME": LOCAL["host"], "LOCAL_NODE_REALM": LOCAL["realm"],
        "LOCAL_NODE_IP_ADDRESS": LOCAL["ip"], "LOCAL_NODE_PORT": LOCAL["port"],
        "PEER_NODE_HOSTNAME": PEER["host"], "PEER_NODE_REALM": PEER["realm"],
        "PEER_NODE_IP_ADDRESS": PEER["ip"], "PEER_NODE_PORT": PEER["port"],
        "WATCHDOG_TIMEOUT": watchdog,
    }


# -- reference-built wire messages of the peer ----------------------------------------------------------

def _b(x):
    return x if isinstance(x, bytes) else x.encode()


def _id(host, realm):
    return [(264, 0x40, None, _b(host)), (296, 0x40, None, _b(realm))]


def cer(hbh=0x01010101, e2e=0x02020202, host=None, realm=None, drop=None, apps=(S6A,), dup=None, extra=(), flags=0x80):
    avps = _id(host or PEER["host"], realm or PEER["realm"]) + [
        (257, 0x40, None, b"\x00\x01\x7f\x00\x00\x02"), (266, 0x40, None, (0).to_bytes(4, "big")),
        (269, 0x00, None, b"peer-product")]
    if drop is not None:
        avps = [a for a in avps if a[0] != drop]
    avps = list(extra) + avps        # foreign AVPs first: validators that look AVPs up by code meet them first
    if dup is not None:
        avps += [a for a in avps if a[0] == dup]
    for a in apps:
        avps.append((260, 0x40, None, [(266, 0x40, None, VENDOR_3GPP.to_bytes(4, "big")),
                                       (258, 0x40, None, a.to_bytes(4, "big"))]))
    return refcodec.enc_msg((1, flags, 257, 0, hbh, e2e, avps))


def cea(hbh, e2e, host=None, realm=None, drop=None, result=2001, apps=(S6A,), dup=None, extra=()):
    avps = [(268, 0x40, None, result.to_bytes(4, "big"))] + _id(host or PEER["host"], realm or PEER["realm"]) + [
        (257, 0x40, None, b"\x00\x01\x7f\x00\x00\x02"), (266, 0x40, None, (0).to_bytes(4, "big")),
        (269, 0x00, None, b"peer-product")]
    avps += list(extra)
    if dup is not None:
        avps += [a for a in avps if a[0] == dup]
    if drop is not None:
        avps = [a for a in avps if a[0] != drop]
    return refcodec.enc_msg((1, 0x00, 257, 0, hbh, e2e, avps))


def dwr(hbh, e2e, host=None, realm=None, dup=None, flags=0x80):
    avps = _id(host or PEER["host"], realm or PEER["realm"])
    if dup is not None:
        avps += [a for a in avps if a[0] == dup]
    return refcodec.enc_msg((1, flags, 280, 0, hbh, e2e, avps))


def dwa(hbh, e2e, host=None, realm=None, result=2001):
    return refcodec.enc_msg((1, 0x00, 280, 0, hbh, e2e, [(268, 0x40, None, result.to_bytes(4, "big"))]
                             + _id(host or PEER["host"], realm or PEER["realm"])))


def dpr(hbh, e2e, host=None, realm=None, cause=0, flags=0x80):
    return refcodec.enc_msg((1, flags, 282, 0, hbh, e2e, _id(host or PEER["host"], realm or PEER["realm"])
                             + [(273, 0x40, None, cause.to_bytes(4, "big"))]))


def dpa(hbh, e2e, host=None, realm=None, result=2001):
    return refcodec.enc_msg((1, 0x00, 282, 0, hbh, e2e, [(268, 0x40, None, result.to_bytes(4, "big"))]
                             + _id(host or PEER["host"], realm or PEER["realm"])))


def app_request(n, hbh=None, dest_host=None, dest_realm=None, pad=0, app=S6A, code=316, grouped=False):
    """An application request addressed to the node (32-byte class of messages when pad == 0)."""
    avps = [(263, 0x40, None, f"s;{n}".encode()),
            (264, 0x40, None, PEER["host"].encode()), (296, 0x40, None, PEER["realm"].encode())]
    if dest_realm is not False:
        avps.append((283, 0x40, None, (dest_realm or LOCAL["realm"]).encode()))
    if dest_host is not None:
        avps.append((293, 0x40, None, dest_host.encode()))
    if pad:
        avps.append((1, 0x40, None, b"u" * pad))
    if grouped:
        avps.append((1400, 0xc0, VENDOR_3GPP, [(1424, 0xc0, VENDOR_3GPP, (0).to_bytes(4, "big"))]))
    return refcodec.enc_msg((1, 0xc0, code, app, hbh if hbh is not None else 0x0a000000 + n, 0x0b000000 + n, avps))


def app_answer(n, hbh=None, app=S6A, code=316):
    avps = [(263, 0x40, None, f"s;{n}".encode()), (268, 0x40, None, (2001).to_bytes(4, "big")),
            (264, 0x40, None, PEER["host"].encode()), (296, 0x40, None, PEER["realm"].encode())]
    return refcodec.enc_msg((1, 0x40, code, app, hbh if hbh is not None else 0x0c000000 + n, 0x0d000000 + n, avps))


def split_stream(data):
    """Complete messages at the head of `data` -> ([message bytes], rest)."""
    out, i = [], 0
    while len(data) - i >= 20:
        ln = int.from_bytes(data[i + 1:i + 4], "big")
        if ln < 20 or i + ln > len(data):
            break
        out.append(bytes(data[i:i + ln]))
        i += ln
    return out, bytes(data[i:])


def header_of(msg):
    return {"flags": msg[4], "code": int.from_bytes(msg[5:8], "big"), "app": int.from_bytes(msg[8:12], "big"),
            "hbh": int.from_bytes(msg[12:16], "big"), "e2e": int.from_bytes(msg[16:20], "big"),
            "request": bool(msg[4] & 0x80)}


# -- the node -----------------------------------------------------------------------------------------------

class Node:
    def __init__(self, rt, role, apps=(S6A,), watchdog=30, send_buffer=None, sleep_timer=1.0, transport="tcp", port_offset=0):
        import bromelia.setup as SU
        import bromelia.statemachine as SM
        self.rt, self.role = rt, role
        SM.STATE_MACHINE_TICKER = TICK
        SM.SLEEP_TIMER = sleep_timer
        SU.SLEEP_TIMER = sleep_timer
        self._saved_buffer = SU.SEND_BUFFER_MAXIMUM_SIZE
        SU.SEND_BUFFER_MAXIMUM_SIZE = send_buffer if send_buffer is not None else 4096 * 64
        self.SU = SU
        self.transport_kind = transport
        self.local_port = LOCAL["port"] + port_offset
        self.diameter = SU.Diameter(config=config(role, apps, watchdog, transport, port_offset))
        self.peer = fakenet.PeerEnd(rt)
        self.tm = shims.make_time()
        self.handshake_request = None
        self.apps = tuple(apps)

    # called from a controlled thread
    def start(self):
        self.diameter.start()

    @property
    def assoc(self):
        return self.diameter._association

    def state(self):
        return self.diameter.get_current_state()

    def peer_handshake(self, accept=True, valid=True):
        """The peer's side of the capabilities exchange. Returns True when it ran to the end."""
        p = self.peer
        if self.role == "client":
            if p.wait_connect() is None:
                return False
            if not accept:
                p.refuse()
                return False
            p.accept()
            # wait for the CER
            got = self.wait_messages(1)
            if not got:
                return False
            h = header_of(got[0])
            self.handshake_request = got[0]
            p.send(cea(h["hbh"], h["e2e"], apps=self.apps) if valid else cea(h["hbh"], h["e2e"], host="intruder.example"))
            return True
        addr = (LOCAL["ip"], self.local_port)
        if p.connect(addr) is None:
            return False
        p.send(cer(apps=self.apps) if valid else cer(host="intruder.example", apps=self.apps))
        got = self.wait_messages(1, timeout=10.0)
        return bool(got)

    def wait_messages(self, n, timeout=30.0):
        """Blocks (peer thread) until the node has written n complete messages; returns them."""
        p = self.peer

        def enough():
            return len(split_stream(p.received())[0]) >= n or p.conn.node_closed
        p.wait_for(enough, f"{n}-messages", timeout=timeout)
        msgs = split_stream(p.received())[0]
        return msgs if len(msgs) >= n else None

    def settle(self, seconds=1.5):
        self.tm.sleep(seconds)

    def wait_open(self, timeout=20.0):
        t0 = self.rt.now
        while self.rt.now - t0 < timeout:
            if self.diameter.is_open():
                return True
            self.tm.sleep(TICK)
        return False

    def wait_state(self, state, timeout=20.0):
        t0 = self.rt.now
        while self.rt.now - t0 < timeout:
            if self.state() == state:
                return True
            self.tm.sleep(TICK)
        return False


def open_node(rt, role, apps=(S6A,), **kw):
    """Starts a node and runs the real handshake with a scripted peer; returns the Node once Open and idle.
    Must be called from the driver thread."""
    node = Node(rt, role, apps, **kw)
    T = shims.Thread
    done = {}

    def peer_side():
        done["hs"] = node.peer_handshake()
    pt = T(target=peer_side, name="peer-handshake")
    pt.start()
    if role == "server":
        at = T(target=node.start, name="app-start")
        at.start()
        at.join()
    else:
        node.start()
    pt.join()
    ok = node.wait_open()
    node.settle(1.5)
    node.opened = ok and bool(done.get("hs"))
    node.baseline_out = len(node.peer.received()) if node.peer.conn is not None else 0
    return node
