# -*- coding: utf-8 -*-
"""Baton scheduler of the virtual runtime.

Every controlled thread is a real OS thread that only runs while it holds the baton (its private
semaphore). All blocking (locks, events, queues, sleeps, selects) is *modelled*: a blocked thread is marked
disabled with a wake-up predicate (+ optional virtual deadline) and parks on its semaphore; nothing in the
library ever blocks in the kernel. At every scheduling point the runtime computes the ordered candidate
list, takes the default (first) candidate unless the explorer prescribed another one for this point, and
records the point. One execution = one Runtime object.
"""
import threading as _th
import traceback


class Abort(BaseException):
    """Raised inside controlled threads to unwind them when the execution is over."""


class HarnessBug(Exception):
    pass


RUNNABLE, BLOCKED, SLEEPING, DONE, NEW = "runnable", "blocked", "sleeping", "done", "new"
QUANTUM = 64
STALL = "<stall>"          # pseudo-candidate: the running thread is descheduled for `stall_time` virtual seconds


class VThread:
    def __init__(self, rt, name, target, args, kwargs, daemon):
        self.rt = rt
        self.name = name
        self.target, self.args, self.kwargs = target, args, kwargs or {}
        self.daemon = daemon
        self.sem = _th.Semaphore(0)
        self.state = NEW
        self.pred = None          # wake-up predicate when BLOCKED
        self.deadline = None      # virtual deadline for timed waits / sleeps
        self.wait_label = None
        self.timed_out = False
        self.exc = None           # exception that killed the thread (not Abort)
        self.exc_tb = None
        self.os_thread = None
        self.index = None
        self.since_block = 0      # scheduling points passed without blocking (fairness quantum)
        self.library = True       # False for scenario-owned threads (drivers, peers)

    def __repr__(self):
        return f"<VThread {self.name} {self.state}>"


class Point:
    __slots__ = ("thread", "kind", "label", "cands", "chosen", "explorable")

    def __init__(self, thread, kind, label, cands, chosen, explorable):
        self.thread, self.kind, self.label = thread, kind, label
        self.cands, self.chosen, self.explorable = cands, chosen, explorable

    def brief(self):
        return [self.thread, self.kind, self.label, self.cands, self.chosen]


class Runtime:
    """One controlled execution."""

    def __init__(self, choices=None, max_points=200000, horizon=600.0, timer_deviation=False):
        self.threads = []
        self.by_ident = {}
        self.current = None
        self.now = 1000.0
        self.choices = dict(choices or {})     # point index -> candidate index (deviations)
        self.points = []
        self.exploring = False                 # deviations are only generated after begin_exploration()
        self.explore_from = None
        self.aborting = False
        self.verdict = None                    # None | "deadlock" | "livelock" | "capped" | "done"
        self.max_points = max_points
        self.horizon = horizon
        self.timer_deviation = timer_deviation
        self.main_sem = _th.Semaphore(0)       # the harness (uncontrolled) thread waits here
        self.log = []
        self.idle_probe = self.default_probe   # callable -> hashable snapshot, for livelock detection
        self._idle_snapshots = []
        self.replay_error = None
        self.lock_registry = []
        self.observations = {}
        self.start_real = None
        self.last_progress = self.now
        self.on_time_advance = None
        self.final_states = []
        self.final_locks = []
        self.runaways = []                     # names of threads aborted by the runaway guard
        self.stall_time = 3.0                  # longer than every library timer (1 s waits, ticks)
        self.allow_stall = True

    def begin_exploration(self):
        """From here on scheduling points may be deviated from (the handshake prefix stays default)."""
        if self.exploring:
            return              # a scenario that explores from an earlier point on keeps that point
        self.exploring = True
        self.explore_from = len(self.points)

    # -- thread bookkeeping -------------------------------------------------------------------------
    def me(self):
        return self.by_ident.get(_th.get_ident())

    def spawn(self, name, target, args=(), kwargs=None, daemon=False, library=True):
        t = VThread(self, name, target, args, kwargs, daemon)
        t.library = library
        t.index = len(self.threads)
        self.threads.append(t)

        def body():
            self.by_ident[_th.get_ident()] = t
            t.sem.acquire()                    # wait for the baton
            try:
                if self.aborting:
                    raise Abort()
                from . import monitor
                monitor.thread_started()
                t.target(*t.args, **t.kwargs)
            except Abort:
                pass
            except BaseException as e:  # noqa
                t.exc = e
                t.exc_tb = traceback.format_exc()
            finally:
                t.state = DONE
                self.by_ident.pop(_th.get_ident(), None)
                self._thread_finished(t)

        t.os_thread = _th.Thread(target=body, name=f"vrt-{name}", daemon=True)
        t.state = RUNNABLE
        t.os_thread.start()
        return t

    # -- the core: choose who runs next ---------------------------------------------------------------
    def _wakeable(self, t):
        if t.state == RUNNABLE:
            return True
        if t.state == BLOCKED and t.pred is not None:
            try:
                return bool(t.pred())
            except Abort:
                return True
        return False

    def _candidates(self, cur):
        """Ordered candidate list at a scheduling point of thread `cur` (cur may be blocked/done)."""
        n = len(self.threads)
        cands = []
        cur_ok = cur is not None and cur.state == RUNNABLE
        start = (cur.index + 1) if cur is not None else 0
        others = []
        for k in range(n):
            t = self.threads[(start + k) % n]
            if t is cur or t.state in (DONE, NEW):
                continue
            if self._wakeable(t):
                others.append(t)
        if cur_ok and cur.since_block < QUANTUM:
            cands = [cur] + others
        elif cur_ok:
            # fairness quantum: a thread that keeps running without ever blocking (a spinner) goes behind
            # the others at no cost; when nobody else is runnable, real time would still pass while it
            # spins, so the earliest timer fires (otherwise a busy loop would freeze the virtual clock)
            if not others:
                timed = self._timed()
                if timed:
                    others = [timed[0]]
            cands = others + [cur]
            if others:
                cur.since_block = 0
        else:
            cands = others
        return cands

    def _timed(self):
        out = [t for t in self.threads if t.state in (BLOCKED, SLEEPING) and t.deadline is not None]
        out.sort(key=lambda t: (t.deadline, t.index))
        return out

    def _choose(self, cur, kind, label):
        """Picks the next thread to run. Returns the VThread, or None when the execution is over."""
        if self.aborting:
            return None
        cands = self._candidates(cur)
        timer = None
        if not cands:
            timed = self._timed()
            if not timed:
                self.verdict = "deadlock"
                return None
            timer = timed[0]
            if timer.deadline > self.now:
                if self.idle_probe is not None and self._idle_check(timer.deadline):
                    self.verdict = "livelock"
                    return None
                self.now = timer.deadline
                if self.on_time_advance:
                    self.on_time_advance(self.now)
            if self.now - 1000.0 > self.horizon:
                self.verdict = "capped"
                return None
            cands = [timer]
        elif self.timer_deviation and self.exploring:
            timed = self._timed()
            if timed and timed[0] not in cands:
                cands = cands + [timed[0]]
        stallable = (self.exploring and self.allow_stall and cur is not None and cur.state == RUNNABLE
                     and cur in cands and kind != "stall" and len(self.threads) > 1)
        if stallable:
            cands = cands + [STALL]
        idx = len(self.points)
        if idx >= self.max_points:
            self.verdict = "capped"
            return None
        pick = 0
        if idx in self.choices:
            pick = self.choices[idx]
            if pick >= len(cands):
                self.replay_error = (f"point {idx}: choice {pick} but only {len(cands)} candidates "
                                     f"({[c.name for c in cands]}) at {kind}:{label}")
                self.verdict = "replay-divergence"
                return None
        chosen = cands[pick]
        self.points.append(Point(cur.name if cur else "-", kind, label,
                                 [c if c is STALL else c.name for c in cands], pick, self.exploring))
        if chosen is STALL:
            return STALL
        if chosen.state != RUNNABLE:
            # a blocked/sleeping thread wakes: by predicate, or by (possibly early, if deviated) timeout
            woke_by_pred = chosen.state == BLOCKED and chosen.pred is not None and self._safe_pred(chosen)
            if not woke_by_pred:
                if chosen.deadline is not None and chosen.deadline > self.now:
                    self.now = chosen.deadline       # timer lands first
                    if self.on_time_advance:
                        self.on_time_advance(self.now)
                chosen.timed_out = True
            else:
                chosen.timed_out = False
            chosen.state = RUNNABLE
            chosen.pred = None
            chosen.deadline = None
        return chosen

    def _safe_pred(self, t):
        try:
            return bool(t.pred())
        except Abort:
            return True

    def default_probe(self):
        net = getattr(self, "net", None)
        conns = tuple((len(c.inbox), len(c.outbox), c.state, c.eof) for c in net.connections) if net else ()
        return (tuple((t.name, t.state, t.wait_label) for t in self.threads if t.state != DONE), conns)

    def _idle_check(self, next_deadline):
        """True when the system has been idling (only timers firing) for `idle_window` with no change."""
        snap = self.idle_probe()
        self._idle_snapshots.append((self.now, snap))
        first = None
        for when, s in reversed(self._idle_snapshots):
            if s != snap:
                break
            first = when
        self._idle_snapshots = self._idle_snapshots[-400:]
        return first is not None and self.now - first >= self.idle_window

    idle_window = 12.0

    # -- switching ---------------------------------------------------------------------------------------
    def _transfer(self, cur, nxt):
        """Give the baton to nxt; cur parks (unless it is done)."""
        if nxt is None:
            self._finish()
            if cur is not None and cur.state != DONE:
                raise Abort()
            return
        if nxt is cur:
            return
        self.current = nxt
        nxt.sem.release()
        if cur is not None and cur.state != DONE:
            cur.sem.acquire()
            if self.aborting:
                raise Abort()

    def point(self, kind, label=""):
        """A scheduling point of the running thread, which stays runnable."""
        cur = self.me()
        if cur is None:
            return                              # harness thread: not scheduled
        if self.aborting:
            raise Abort()
        if cur is not self.current:
            raise HarnessBug(f"{cur.name} runs without the baton (current={self.current})")
        cur.since_block += 1
        cur.calls_since_point = 0
        nxt = self._choose(cur, kind, label)
        if nxt is STALL:
            # a long preemption: everything else (timers included) proceeds meanwhile
            self.block("stall", f"{kind}:{label}", pred=None, timeout=self.stall_time)
            return
        self._transfer(cur, nxt)

    def env_choice(self, kind, label, options):
        """An environment answer (short write, short read, ...): option 0 is the default; any other option
        is a deviation. Returns the chosen option index. Recorded as a point of the running thread."""
        cur = self.me()
        if cur is None or self.aborting:
            return 0
        idx = len(self.points)
        pick = 0
        if idx in self.choices:
            pick = self.choices[idx]
            if pick >= len(options):
                self.replay_error = f"point {idx}: env choice {pick} of {options} at {kind}:{label}"
                self.verdict = "replay-divergence"
                self._finish()
                raise Abort()
        self.points.append(Point(cur.name, kind, label, list(options), pick, self.exploring))
        return pick

    def block(self, kind, label, pred=None, timeout=None):
        """The running thread blocks until pred() holds or the virtual timeout expires.
        Returns True when woken by the predicate, False on timeout."""
        cur = self.me()
        if cur is None:
            raise HarnessBug("block() from an uncontrolled thread")
        if self.aborting:
            raise Abort()
        cur.state = BLOCKED if pred is not None else SLEEPING
        cur.pred = pred
        cur.deadline = (self.now + timeout) if timeout is not None else None
        cur.wait_label = f"{kind}:{label}"
        cur.timed_out = False
        cur.since_block = 0
        cur.calls_since_point = 0
        nxt = self._choose(cur, kind, label)
        if nxt is cur:
            return not cur.timed_out
        self._transfer(cur, nxt)
        return not cur.timed_out

    def _thread_finished(self, t):
        if self.aborting:
            self._release_next_parked()
            return
        nxt = self._choose(t, "exit", t.name)
        if nxt is None:
            self._finish()
        else:
            self.current = nxt
            nxt.sem.release()

    # -- ending an execution ------------------------------------------------------------------------------
    def _finish(self):
        if not self.aborting:
            # what every thread was doing when the execution ended (before the unwinding)
            self.final_states = [(t.name, t.state, t.wait_label if t.state != RUNNABLE else None, t.library)
                                 for t in self.threads]
            self.final_locks = [(lk.label, lk.owner_name()) for lk in self.lock_registry if lk.locked()]
            self.aborting = True
            if self.verdict is None:
                self.verdict = "done"
            self.main_sem.release()

    def _release_next_parked(self):
        pass

    def stop(self, verdict="done"):
        """Called by the scenario driver when its goal is reached."""
        if self.verdict is None:
            self.verdict = verdict
        self._finish()
        raise Abort()

    def run(self, driver, name="driver", real_timeout=120.0):
        """Runs `driver` as the first controlled thread; returns when the execution is over."""
        from . import monitor
        monitor.attach(self)
        t = self.spawn(name, driver, library=False)
        self.current = t
        t.sem.release()
        ok = self.main_sem.acquire(timeout=real_timeout)
        if not ok:
            self.verdict = "harness-timeout"
            self.aborting = True
        # unwind everything that is still parked
        self.aborting = True
        for th in self.threads:
            if th.state != DONE:
                th.sem.release()
        leaked = []
        for th in self.threads:
            th.os_thread.join(timeout=15.0)
            if th.os_thread.is_alive():
                leaked.append(th.name)
        monitor.detach(self)
        self.leaked = leaked
        return self.verdict

    # -- helpers for oracles ---------------------------------------------------------------------------------
    def stuck_locks(self):
        """Locks whose owner will never release them by itself: the owner thread has ended, or is blocked
        without a deadline. (A thread that is merely descheduled - stalled, sleeping, runnable - still holds
        its locks legitimately.)"""
        out = []
        for lk in self.lock_registry:
            o = lk._owner
            if o is None:
                continue
            if o.state == DONE or (o.state == BLOCKED and o.deadline is None):
                out.append((lk.label, o.name, o.state, o.wait_label if o.state != DONE else None))
        return out

    def live_library_threads(self):
        return [t for t in self.threads if t.library and t.state != DONE]

    def crashed_threads(self):
        return [t for t in self.threads if t.exc is not None]

    def trace_brief(self, start=0):
        return [p.brief() for p in self.points[start:]]
