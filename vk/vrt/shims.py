# -*- coding: utf-8 -*-
"""Shim replacements for threading / queue / time (+ random, os.urandom, datetime) implemented on the
baton scheduler. Each shim object finds the runtime of the *current execution* through `current()`; shim
objects must not outlive their execution."""
import collections
import types

from . import sched

_CURRENT = [None]


def set_runtime(rt):
    _CURRENT[0] = rt


def current():
    rt = _CURRENT[0]
    if rt is None:
        raise sched.HarnessBug("shim used outside a controlled execution")
    return rt


# ----------------------------------------------------------------------------------------------------------
# threading
# ----------------------------------------------------------------------------------------------------------

class BrokenBarrierError(RuntimeError):
    pass


class Thread:
    def __init__(self, group=None, target=None, name=None, args=(), kwargs=None, daemon=None):
        self._target, self._args, self._kwargs = target, args, kwargs
        self.name = name or f"Thread-{id(self) % 1000}"
        self.daemon = bool(daemon)
        self._vt = None

    def start(self):
        rt = current()
        rt.point("thread.start", self.name)
        scenario_owned = self.name.startswith(("peer", "driver", "probe"))
        self._vt = rt.spawn(self.name, self._target or (lambda: None), self._args, self._kwargs, self.daemon,
                            library=not scenario_owned)

    def join(self, timeout=None):
        rt = current()
        vt = self._vt
        rt.point("thread.join", self.name)
        if vt is None or vt.state == sched.DONE:
            return
        rt.block("thread.join", self.name, pred=lambda: vt.state == sched.DONE, timeout=timeout)

    def is_alive(self):
        rt = current()
        rt.point("thread.is_alive", self.name)
        return self._vt is not None and self._vt.state != sched.DONE


class _CurrentThreadProxy:
    @property
    def name(self):
        t = current().me()
        return t.name if t else "MainThread"


def current_thread():
    return _CurrentThreadProxy()


class Event:
    def __init__(self):
        self._flag = False
        self.label = "event"

    def is_set(self):
        current().point("event.is_set", self.label)
        return self._flag

    def set(self):
        current().point("event.set", self.label)
        self._flag = True

    def clear(self):
        current().point("event.clear", self.label)
        self._flag = False

    def wait(self, timeout=None):
        rt = current()
        rt.point("event.wait", self.label)
        if self._flag:
            return True
        rt.block("event.wait", self.label, pred=lambda: self._flag, timeout=timeout)
        return self._flag


class Lock:
    def __init__(self):
        self._owner = None
        self.label = "lock"
        rt = _CURRENT[0]
        if rt is not None:
            rt.lock_registry.append(self)

    def acquire(self, blocking=True, timeout=-1):
        rt = current()
        me = rt.me()
        rt.point("lock.acquire", self.label)
        if self._owner is None:
            self._owner = me
            return True
        if not blocking:
            return False
        to = None if (timeout is None or timeout < 0) else timeout
        rt.block("lock.acquire", self.label, pred=lambda: self._owner is None, timeout=to)
        if self._owner is None:
            self._owner = me
            return True
        return False

    def release(self):
        rt = current()
        if self._owner is None:
            raise RuntimeError("release unlocked lock")
        self._owner = None
        rt.point("lock.release", self.label)

    def locked(self):
        return self._owner is not None

    def owner_name(self):
        return self._owner.name if self._owner is not None else None

    __enter__ = acquire

    def __exit__(self, *a):
        self.release()


RLock = Lock


class Barrier:
    def __init__(self, parties, action=None, timeout=None):
        self.parties = parties
        self._count = 0
        self._generation = 0
        self._tripped = set()
        self._broken = False
        self.label = "barrier"

    def wait(self, timeout=None):
        rt = current()
        rt.point("barrier.wait", self.label)
        if self._broken:
            raise BrokenBarrierError()
        gen = self._generation
        self._count += 1
        if self._count == self.parties:
            self._count = 0
            self._tripped.add(gen)
            self._generation += 1
            return 0
        rt.block("barrier.wait", self.label,
                 pred=lambda: gen in self._tripped or self._broken or self._generation != gen, timeout=timeout)
        if gen in self._tripped:
            return 1
        if self._generation == gen:
            self._broken = True          # this waiter timed out: the barrier breaks for everybody
        raise BrokenBarrierError()

    def reset(self):
        current().point("barrier.reset", self.label)
        self._count = 0
        self._broken = False
        self._generation += 1

    def abort(self):
        self._broken = True


def make_threading():
    m = types.ModuleType("threading_shim")
    m.Thread, m.Event, m.Lock, m.RLock, m.Barrier = Thread, Event, Lock, RLock, Barrier
    m.BrokenBarrierError = BrokenBarrierError
    m.current_thread = current_thread
    m.get_ident = lambda: id(current().me())
    return m


# ----------------------------------------------------------------------------------------------------------
# queue
# ----------------------------------------------------------------------------------------------------------

class Empty(Exception):
    pass


class Full(Exception):
    pass


class Queue:
    def __init__(self, maxsize=0):
        self._q = collections.deque()
        self.label = "queue"

    def put(self, item, block=True, timeout=None):
        current().point("queue.put", self.label)
        self._q.append(item)

    put_nowait = put

    def get(self, block=True, timeout=None):
        rt = current()
        rt.point("queue.get", self.label)
        if not self._q:
            if not block:
                raise Empty()
            rt.block("queue.get", self.label, pred=lambda: bool(self._q), timeout=timeout)
            if not self._q:
                raise Empty()
        return self._q.popleft()

    def get_nowait(self):
        return self.get(block=False)

    def empty(self):
        current().point("queue.empty", self.label)
        return not self._q

    def qsize(self):
        current().point("queue.qsize", self.label)
        return len(self._q)

    @property
    def queue(self):
        """queue.Queue.queue (the underlying deque), as the library may peek at the head."""
        current().point("queue.peek", self.label)
        return self._q

    # harness-side access, no scheduling point
    def peek_all(self):
        return list(self._q)


def make_queue():
    m = types.ModuleType("queue_shim")
    m.Queue, m.Empty, m.Full = Queue, Empty, Full
    m.SimpleQueue = Queue
    return m


# ----------------------------------------------------------------------------------------------------------
# time / random / os / datetime
# ----------------------------------------------------------------------------------------------------------

def make_time():
    m = types.ModuleType("time_shim")

    def sleep(d):
        rt = current()
        if d <= 0:
            rt.point("time.sleep", "0")
            return
        rt.block("time.sleep", f"{d:g}", pred=None, timeout=d)

    m.sleep = sleep
    m.time = lambda: current().now
    m.monotonic = lambda: current().now
    m.perf_counter = lambda: current().now
    return m


def make_random():
    import random as real
    m = types.ModuleType("random_shim")
    rng = real.Random(12345)
    m.choice = rng.choice
    m.random = rng.random
    m.randint = rng.randint
    m._rng = rng
    return m


class UrandomSource:
    """os.urandom answers: by default a counter (never repeats); a scenario may install a script."""
    def __init__(self):
        self.counter = 0
        self.script = None

    def urandom(self, n):
        rt = _CURRENT[0]
        if rt is not None and rt.me() is not None:
            rt.point("os.urandom", str(n))
        if self.script is not None:
            return self.script(n)
        self.counter += 1
        return (0x40000000 + self.counter).to_bytes(4, "big")[-n:].rjust(n, b"\x00")


URANDOM = UrandomSource()


def make_os():
    import os as real
    m = types.ModuleType("os_shim")
    for k in dir(real):
        if not k.startswith("__"):
            setattr(m, k, getattr(real, k))
    m.urandom = URANDOM.urandom
    return m


def make_datetime():
    import datetime as real
    m = types.ModuleType("datetime_shim")
    for k in dir(real):
        if not k.startswith("__"):
            setattr(m, k, getattr(real, k))

    class VDateTime(real.datetime):
        @classmethod
        def utcnow(cls):
            rt = _CURRENT[0]
            base = real.datetime(2030, 1, 1)
            return base + real.timedelta(seconds=(rt.now if rt else 1000.0))

        @classmethod
        def now(cls, tz=None):
            return cls.utcnow()

    m.datetime = VDateTime
    return m
