# -*- coding: utf-8 -*-
"""C17 - Result-code class predicates agree with the numeric family for every code (ENUM, exhaustive).

Every code 0..65535 (+ 32-bit boundary values, + every constant defined by the library; thorough adds
a 2^20-point stride over the whole 32-bit space) goes through the integer predicates
is_result_code_family_Nxxx(n) and through the answer-object predicates is_Nxxx_*(answer) for answers
of three shapes (typed DWA, typed S6a ULA, generic DiameterAnswer) plus an answer without Result-Code.
Oracle: n // 1000 (integer arithmetic).
"""
LEVEL = "exploration"
RULE = ("every integer code in 0..65535, the 32-bit boundary values, every DIAMETER_* constant of "
        "result_codes.py / experimental_result_codes.py, every value of every pair of byte positions of the "
        "32-bit code with the two other bytes at a context value (00, 01; thorough also 7f, 80, ff) "
        "(thorough: plus a stride of 4093 over 0..2^32-1) "
        "x two predicate families x three answer shapes; a case is one (code, family, shape) triple, all "
        "distinct by construction; non-trivial = codes that are not multiples of 1000 (a definite "
        "family is demanded); multiples of 1000 only get the 'at most one predicate' clause")
ASSUMPTIONS = [
    "oracle: predicate_k(n) truthy iff n // 1000 == k for n % 1000 != 0 (k = 1..5)",
    "for multiples of 1000 the statement leaves the family open; only mutual exclusion is demanded",
    "object predicates only read answer.result_code_avp.data, so three answer shapes suffice",
]

FAMILIES = (1, 2, 3, 4, 5)
INT_PREDS = {1: "is_result_code_family_1xxx", 2: "is_result_code_family_2xxx",
             3: "is_result_code_family_3xxx", 4: "is_result_code_family_4xxx",
             5: "is_result_code_family_5xxx"}
OBJ_PREDS = {1: "is_1xxx_informational", 2: "is_2xxx_success", 3: "is_3xxx_failure",
             4: "is_4xxx_failure", 5: "is_5xxx_failure"}


def library_constants():
    from bromelia.constants import result_codes, experimental_result_codes
    out = {}
    for mod in (result_codes, experimental_result_codes):
        for name, val in vars(mod).items():
            if name.startswith("DIAMETER_") and isinstance(val, bytes) and len(val) == 4:
                out[name] = int.from_bytes(val, "big")
    return out


def bucket(n):
    """Violation-signature bucket: which family the code is in, and a coarse position."""
    fam = n // 1000
    return f"fam{fam if fam <= 6 else 'hi'}"


def make_answers():
    from bromelia.messages import DWA
    from bromelia.base import DiameterAnswer
    from bromelia.avps import ResultCodeAVP
    shapes = {}
    shapes["DWA"] = DWA(origin_host="h.example", origin_realm="example")
    try:
        from bromelia.lib.etsi_3gpp_s6a import ULA
        shapes["ULA"] = ULA(session_id="h.example", origin_host="h.example", origin_realm="example",
                            result_code=2001)
    except BaseException:  # noqa  constructor signature differs: fall back to a generic answer
        shapes["ULA"] = None
    g = DiameterAnswer(command_code=316, application_id=16777251)
    g.append(ResultCodeAVP(2001))
    shapes["generic"] = g
    return {k: v for k, v in shapes.items() if v is not None}


def check_code(rep, n, utils, answers):
    exp = n // 1000 if n % 1000 else None
    # integer predicates
    truthy = []
    for k in FAMILIES:
        try:
            r = bool(getattr(utils, INT_PREDS[k])(n))
        except BaseException as e:  # noqa
            rep.violation(f"C17:int:exc-{type(e).__name__}:{bucket(n)}",
                          f"{INT_PREDS[k]}({n}) raised {type(e).__name__}",
                          {"via": "int", "code": n, "family": k})
            continue
        if r:
            truthy.append(k)
        if exp is not None and r != (exp == k):
            rep.violation(f"C17:int:family{k}:{'false-positive' if r else 'false-negative'}:{bucket(n)}",
                          f"{INT_PREDS[k]}({n}) is {r}; {n} // 1000 == {n // 1000}",
                          {"via": "int", "code": n, "family": k})
    if len(truthy) > 1:
        rep.violation(f"C17:int:overlap:{bucket(n)}",
                      f"code {n} satisfies several integer predicates {truthy}",
                      {"via": "int", "code": n, "family": truthy})
    # object predicates
    data = n.to_bytes(4, "big")
    for shape, ans in answers.items():
        ans.result_code_avp.data = data
        truthy = []
        for k in FAMILIES:
            try:
                r = bool(getattr(utils, OBJ_PREDS[k])(ans))
            except BaseException as e:  # noqa
                rep.violation(f"C17:obj:exc-{type(e).__name__}:{bucket(n)}",
                              f"{OBJ_PREDS[k]}(<{shape} rc={n}>) raised {type(e).__name__}",
                              {"via": "obj", "shape": shape, "code": n, "family": k})
                continue
            if r:
                truthy.append(k)
            if exp is not None and r != (exp == k):
                rep.violation(
                    f"C17:obj:family{k}:{'false-positive' if r else 'false-negative'}:{bucket(n)}",
                    f"{OBJ_PREDS[k]}(<{shape} Result-Code={n}>) is {r}; {n} // 1000 == {n // 1000}",
                    {"via": "obj", "shape": shape, "code": n, "family": k})
        if len(truthy) > 1:
            rep.violation(f"C17:obj:overlap:{bucket(n)}",
                          f"Result-Code {n} satisfies several answer predicates {truthy}",
                          {"via": "obj", "shape": shape, "code": n, "family": truthy})


def _shard(rep, arg):
    from bromelia import utils
    answers = make_answers()
    codes = arg
    nontrivial = 0
    for n in codes:
        check_code(rep, n, utils, answers)
        if n % 1000:
            nontrivial += 1
    per_code = 5 + 5 * len(answers)
    rep.add(evaluations=len(codes) * per_code, distinct=nontrivial * per_code, codes=len(codes))
    if codes:
        rep.sample({"code": codes[0], "expected_family": codes[0] // 1000 if codes[0] % 1000 else None,
                    "answer_shapes": sorted(answers)})
    rep.note(f"answer shapes: {sorted(answers)}")


def no_result_code_case(rep):
    from bromelia import utils
    from bromelia.base import DiameterAnswer
    from bromelia.avps import OriginHostAVP
    empty = DiameterAnswer(command_code=316, application_id=16777251)
    only_other = DiameterAnswer(command_code=316, application_id=16777251)
    only_other.append(OriginHostAVP("h.example"))
    for label, ans in (("empty", empty), ("no-result-code", only_other)):
        for k in FAMILIES:
            try:
                r = getattr(utils, OBJ_PREDS[k])(ans)
            except BaseException as e:  # noqa
                rep.violation(f"C17:obj:no-result-code:exc-{type(e).__name__}",
                              f"{OBJ_PREDS[k]}(<{label} answer>) raised {type(e).__name__}",
                              {"via": "norc", "label": label, "family": k})
                continue
            if r:
                rep.violation("C17:obj:no-result-code:truthy",
                              f"{OBJ_PREDS[k]}(<{label} answer>) is truthy without a Result-Code",
                              {"via": "norc", "label": label, "family": k})
        rep.add(evaluations=5, distinct=5)


def run(report, tier, seed):
    from vk import core
    consts = library_constants()
    codes = set(range(0, 65536))
    codes |= {2 ** 31 - 1, 2 ** 31, 2 ** 32 - 1, 2 ** 32 - 1000, 2 ** 24, 2 ** 16, 2 ** 16 + 1}
    codes |= set(consts.values())
    # byte structure of the 4-byte Result-Code: every value of every pair of byte positions, the two other
    # bytes held at a context value (a conversion that drops, swaps or sign-extends bytes shows here)
    contexts = (0x00, 0x01) if tier == "quick" else (0x00, 0x01, 0x7f, 0x80, 0xff)
    for i in range(4):
        for j in range(i + 1, 4):
            for c in contexts:
                base = sum(c << (8 * (3 - k)) for k in range(4) if k not in (i, j))
                si, sj = 8 * (3 - i), 8 * (3 - j)
                codes |= {base | (a << si) | (b << sj) for a in range(256) for b in range(256)}
    if tier == "thorough":
        codes |= set(range(seed % 4093, 2 ** 32, 4093))
    codes = sorted(codes)
    n = core.jobs() * 4
    size = (len(codes) + n - 1) // n
    shards = [codes[i:i + size] for i in range(0, len(codes), size)]
    core.run_shards(report, _shard, shards)
    no_result_code_case(report)
    report.note(f"{len(consts)} library constants included")
    return {"codes": len(codes)}


def replay(w):
    from bromelia import utils
    if w["via"] == "int":
        n = w["code"]
        res = {k: bool(getattr(utils, INT_PREDS[k])(n)) for k in FAMILIES}
        print(f"code {n}: n//1000={n // 1000}; integer predicates -> {res}")
    elif w["via"] == "obj":
        n = w["code"]
        ans = make_answers()[w["shape"]]
        ans.result_code_avp.data = n.to_bytes(4, "big")
        res = {k: bool(getattr(utils, OBJ_PREDS[k])(ans)) for k in FAMILIES}
        print(f"{w['shape']} with Result-Code {n}: n//1000={n // 1000}; answer predicates -> {res}")
    else:
        from bromelia.base import DiameterAnswer
        ans = DiameterAnswer(command_code=316, application_id=16777251)
        res = {k: getattr(utils, OBJ_PREDS[k])(ans) for k in FAMILIES}
        print(f"answer without Result-Code -> {res}")
        return any(res.values())
    n = w["code"]
    exp = n // 1000 if n % 1000 else None
    t = [k for k, v in res.items() if v]
    return len(t) > 1 or (exp is not None and t != ([exp] if exp in FAMILIES else []))
