# -*- coding: utf-8 -*-
"""C04 - Inbound messages are delivered once, in order, however the stream is fragmented (SCHED).

Real Diameter node (DiameterAssociation, TcpClient / TcpServer, PeerStateMachine) on the virtual runtime,
brought to Open by the real handshake; a scripted peer then makes the bytes of a message sequence available
chunk by chunk (every 1-cut, structural 2-cuts, byte-at-a-time), an application thread calls
Diameter.get_message() n times, and the schedule explorer enumerates every schedule with <= d deviations.
"""
from vk import core
from vk.vrt import explore, node, shims

LEVEL = "model_checking"
RULE = ("stateless schedule exploration of the real threads {transport reader, receive worker, state machine, "
        "application consumer, scripted peer}: message sequences of length 1..2 (thorough 3) over {application "
        "request, application answer, request with a Grouped AVP, DWR}; segmentations = every 1-cut of the "
        "concatenated encoding at byte granularity at d = 0, structural cuts {1, 4, 19, 20, 21, 28, len-1, len, "
        "len+1, len+19, len+20} at d <= 1, whole delivery and byte-at-a-time at d <= 1 (thorough: every 1-cut at "
        "d <= 1, structural 2-cuts at d <= 1, structural 1-cuts at d <= 2); the same sequences followed at once by "
        "the peer's orderly close (whole, byte-at-a-time, 4 cuts at d = 0; two sequences at d <= 1); client and "
        "server roles. A state = "
        "one executed schedule; deviations = non-default thread choice or a long stall of the running thread")
ASSUMPTIONS = [
    "scheduling points: every lock/event/queue/selector/socket/sleep operation of the library and every source "
    "line of transport.py/setup.py/statemachine.py that mentions a shared attribute (line granularity, as the "
    "property's quantifier states); one source line is one atomic step",
    "the fake socket/selector reproduce Linux loopback semantics for the calls the library makes (vk/vrt/fakenet.py)",
    "the handshake is a deterministic prefix; deviations are counted from the first payload byte on",
    "liveness is judged under the fair continuation: the consumer must have all messages when the system goes "
    "quiescent (no change during 8 virtual seconds of timer firings)",
]

SHARED_NODE = frozenset({
    "_recv_data_stream", "_recv_buffer", "_recv_data_available", "_recv_messages", "_send_messages",
    "postprocess_recv_messages", "postprocess_recv_messages_ready", "transport", "_stop_threads", "events_mask",
    "data_stream", "_send_buffer", "send_data_stream_queued", "state_is_active", "events",
    "tracking_events_count", "is_connected", "error_has_raised", "is_running", "current_state", "next_state",
    "pending_requests", "end_to_end_identifiers", "num_requests", "num_answers", "msg", "sock", "selector",
})

KINDS = {"req": lambda n: node.app_request(n), "ans": lambda n: node.app_answer(n),
         "grp": lambda n: node.app_request(n, grouped=True), "dwr": lambda n: node.dwr(0x0e000000 + n, 0x0f000000 + n),
         # well framed but undecodable (unknown Disconnect-Cause enumerator): the decoder rejects it; what comes
         # before and after it in the stream is delivered all the same
         "bad": lambda n: node.dpr(0x0e100000 + n, 0x0f100000 + n, cause=7)}
NOT_FOR_APP = ("dwr", "bad")


def build_sequence(kinds):
    return [KINDS[k](i + 1) for i, k in enumerate(kinds)]


class Inbound(explore.Scenario):
    name = "inbound"
    horizon = 90.0
    max_points = 40000
    idle_window = 8.0
    shared = SHARED_NODE
    auto_shared = True

    def driver(self, rt):
        kinds, cuts, role = self.params["kinds"], self.params["cuts"], self.params.get("role", "client")
        n = node.open_node(rt, role, transport=self.params.get("transport", "tcp"))
        msgs = build_sequence(kinds)
        stream = b"".join(msgs)
        expect_app = [m for k, m in zip(kinds, msgs) if k not in NOT_FOR_APP]
        obs = rt.observations
        obs.update(opened=n.opened, expect=[m.hex() for m in expect_app], got=[], kinds=kinds,
                   dwr_ids=[(node.header_of(m)["hbh"], node.header_of(m)["e2e"]) for k, m in zip(kinds, msgs) if k == "dwr"])
        if not n.opened:
            rt.stop("handshake-failed")
        T = shims.Thread
        baseline = len(n.peer.received())

        def consumer():
            for _ in expect_app:
                m = n.diameter.get_message()
                if m is None and self.params.get("then_close"):
                    break            # the connection has ended: nothing more will come
                obs["got"].append(m.dump().hex() if m is not None else None)

        def peer():
            if cuts == "bytes":
                pieces = [stream[i:i + 1] for i in range(len(stream))]
            else:
                pts = [0] + sorted(set(c for c in cuts if 0 < c < len(stream))) + [len(stream)]
                pieces = [stream[a:b] for a, b in zip(pts, pts[1:])]
            for piece in pieces:
                n.peer.send(piece)
                # the next chunk becomes available only after the node has read this one (a slow sender)
                n.peer.wait_for(lambda: not n.peer.conn.inbox, "chunk-read", timeout=20.0)
            if self.params.get("then_close"):
                # the peer ends the connection (orderly FIN) right behind its last message
                n.peer.close()

        rt.begin_exploration()
        ct = T(target=consumer, name="app-consumer")
        pt = T(target=peer, name="peer-sender")
        ct.start()
        pt.start()
        pt.join()
        ct.join()
        # let the watchdog answers (if any) drain: a stalled thread resumes after rt.stall_time
        n.settle(rt.stall_time + 2.0)
        obs["out"] = n.peer.received()[baseline:].hex()
        obs["state"] = n.state()
        rt.stop()

    def oracle(self, rt):
        obs = rt.observations
        errs = []
        shape = "+".join(self.params["kinds"])
        cutsig = self.params.get("cutsig", "cut") + (":sctp" if self.params.get("transport") == "sctp" else "")
        if rt.verdict == "handshake-failed":
            return [("C04:handshake-failed", "the node did not reach Open in the deterministic prefix")]
        got, expect = obs.get("got", []), obs.get("expect", [])
        if rt.verdict != "done":
            stuck = [f"{n}@{w}" for n, st, w, lib in rt.final_states if st != "done" and lib and w and "sleep" not in w and "select" not in w]
            errs.append((f"C04:{rt.verdict}:not-delivered:{cutsig}",
                         f"execution ended in {rt.verdict} with {len(got)}/{len(expect)} messages delivered; "
                         f"blocked: {stuck}; locks held: {rt.final_locks}"))
            return errs
        if got != expect:
            if len(got) == len(expect) and sorted(map(str, got)) == sorted(expect):
                kind = "reordered"
            elif any(g not in expect for g in got):
                kind = "corrupted-or-foreign"
            elif len(set(map(str, got))) < len(got):
                kind = "duplicated"
            else:
                kind = "lost"
            errs.append((f"C04:delivery:{kind}:{cutsig}",
                         f"application received {len(got)} message(s) {[str(g)[:48] for g in got]}, peer sent "
                         f"{[e[:48] for e in expect]} (kinds {shape}, cuts {self.params['cuts']})"))
        # DWAs in the order of the DWRs, echoing their identifiers
        out = bytes.fromhex(obs.get("out", ""))
        msgs, rest = node.split_stream(out)
        dwas = [(node.header_of(m)["hbh"], node.header_of(m)["e2e"]) for m in msgs
                if node.header_of(m)["code"] == 280 and not node.header_of(m)["request"]]
        # consumption order of base messages is observed through the DWAs that were written: they must be an
        # order-preserving subsequence of the DWRs (a DWA that is never written is a send-path matter: C05/C07)
        ids = [tuple(x) for x in obs.get("dwr_ids", [])]
        it = iter(ids)
        if not all(any(d == x for x in it) for d in dwas):
            errs.append((f"C04:watchdog-answers:{cutsig}",
                         f"DWRs {ids} were answered by DWAs {dwas}: not in the order sent"))
        for t in rt.crashed_threads():
            if t.library:
                errs.append((f"C04:thread-crashed:{t.name}:{type(t.exc).__name__}",
                             f"{t.name} died: {type(t.exc).__name__}: {t.exc}"))
        return errs

    def outcome(self, rt):
        # generated identifiers (the node's own DWRs) differ from execution to execution: only shapes count
        out, _r = node.split_stream(bytes.fromhex(rt.observations.get("out", "")))
        shape = tuple((node.header_of(m)["code"], node.header_of(m)["request"]) for m in out)
        return (rt.verdict, tuple(rt.observations.get("got", [])), shape)


def structural_cuts(total, first_len):
    base = {1, 4, 19, 20, 21, 28, first_len - 1, first_len, first_len + 1, first_len + 19, first_len + 20}
    return sorted(c for c in base if 0 < c < total)


def plan(tier):
    """yield (params, bound). d = 0 everywhere (every 1-cut at byte granularity, byte-at-a-time, both roles);
    d = 1 on a curated set of (sequence, segmentation, role) triples (quick: 6, thorough: ~70); d = 2 on two
    narrow scenarios (thorough)."""
    seqs1 = [["req"], ["ans"], ["grp"], ["dwr"]]
    seqs2 = [["req", "req"], ["req", "ans"], ["dwr", "req"], ["req", "dwr"], ["grp", "req"]]
    seqs3 = [["req", "dwr", "ans"], ["req", "req", "req"]]
    thorough = tier == "thorough"

    def P(kinds, cuts, role, cutsig, then_close=False):
        d = dict(kinds=kinds, cuts=cuts, role=role, cutsig=cutsig)
        if then_close:
            d["then_close"] = True
        return d

    # -- d = 0: the complete segmentation space ------------------------------------------------------------
    for role in ("server", "client"):
        for kinds in seqs1 + seqs2 + (seqs3 if thorough else []):
            msgs = build_sequence(kinds)
            total, first = sum(map(len, msgs)), len(msgs[0])
            yield P(kinds, [], role, "whole"), 0
            yield P(kinds, "bytes", role, "bytewise"), 0
            cuts = range(1, total) if (role == "server" or thorough) else structural_cuts(total, first)
            for c in cuts:
                yield P(kinds, [c], role, "1cut-header" if c < 20 else "1cut"), 0
            if thorough and role == "server":
                sc = structural_cuts(total, first)
                for i, a in enumerate(sc):
                    for b2 in sc[i + 1:]:
                        yield P(kinds, [a, b2], role, "2cut"), 0
    # -- the peer closes the connection right behind its last message (what was sent is still delivered) ------
    for role in ("server", "client"):
        for kinds in seqs1 + seqs2 + (seqs3 if thorough else []):
            yield P(kinds, [], role, "whole+fin", True), 0
            yield P(kinds, "bytes", role, "bytewise+fin", True), 0
            first = len(build_sequence(kinds)[0])
            for c in (3, 20, first - 1, first + 1):
                yield P(kinds, [c], role, "1cut+fin", True), 0
    # an undecodable message among good ones: delivery must not depend on how the stream was cut
    for role in ("server", "client"):
        for kinds in (["req", "bad", "req"], ["bad", "req"], ["req", "bad"], ["dwr", "bad", "req"]):
            msgs = build_sequence(kinds)
            first = len(msgs[0])
            yield P(kinds, [], role, "whole+bad"), 0
            yield P(kinds, [first], role, "msgcut+bad"), 0
            yield P(kinds, [first, first + len(msgs[1])], role, "msgcut+bad"), 0
            yield P(kinds, "bytes", role, "bytewise+bad"), 0
    # -- the SCTP transport classes (their own _read/_write over a fake pysctp socket on the same virtual network) --
    def S(params):
        return dict(params, transport="sctp")
    for role in ("server", "client"):
        for kinds in [["req"], ["dwr", "req"], ["req", "ans"]] + ([["req", "req", "req"], ["grp", "req"]] if thorough else []):
            msgs = build_sequence(kinds)
            total, first = sum(map(len, msgs)), len(msgs[0])
            yield S(P(kinds, [], role, "whole")), 0
            yield S(P(kinds, "bytes", role, "bytewise")), 0
            for c in (range(1, total) if thorough and role == "server" else structural_cuts(total, first)):
                yield S(P(kinds, [c], role, "1cut-header" if c < 20 else "1cut")), 0
            yield S(P(kinds, [], role, "whole+fin", True)), 0
            yield S(P(kinds, [first - 1], role, "1cut+fin", True)), 0
    yield S(P(["req", "req"], [20], "server", "1cut")), 1
    if thorough:
        yield S(P(["dwr", "req"], [], "client", "whole+fin", True)), 0
        yield S(P(["req"], [21], "client", "1cut")), 0
    yield P(["req", "bad", "req"], [], "server", "whole+bad"), 1
    yield P(["req", "req"], [], "server", "whole+fin", True), 1
    yield P(["dwr", "req"], [], "client", "whole+fin", True), 1
    if thorough:
        yield P(["req"], [20], "server", "1cut+fin", True), 1
        yield P(["req", "req"], [], "client", "whole+fin", True), 1
        yield P(["req", "dwr"], [], "server", "whole+fin", True), 1
        yield P(["req"], [], "server", "whole+fin", True), 2
    # -- d = 1 -----------------------------------------------------------------------------------------------
    one = [(["req"], [], "server", "whole"), (["req"], [20], "server", "1cut"),
           (["req", "req"], [len(build_sequence(["req"])[0])], "server", "1cut"),
           (["dwr", "req"], [], "server", "whole"), (["req"], [21], "client", "1cut"),
           (["req", "req"], [], "server", "whole")]
    if thorough:
        for kinds in seqs1 + seqs2:
            msgs = build_sequence(kinds)
            total, first = sum(map(len, msgs)), len(msgs[0])
            one.append((kinds, [], "server", "whole"))
            one.append((kinds, [], "client", "whole"))
            for c in structural_cuts(total, first):
                one.append((kinds, [c], "server", "1cut-header" if c < 20 else "1cut"))
        one.append((["req"], "bytes", "server", "bytewise"))
    seen = set()
    for kinds, cuts, role, sig in one:
        key = (tuple(kinds), str(cuts), role)
        if key in seen:
            continue
        seen.add(key)
        yield P(kinds, cuts, role, sig), 1
    # -- d = 2 -----------------------------------------------------------------------------------------------
    if thorough:
        yield P(["req"], [], "server", "whole"), 2


def _shard(rep, arg):
    items = arg
    stats = {"executions": 0, "points": 0}
    for params, bound, k, n in items:
        scn = Inbound(**params)
        if k == 0:
            base = explore.selfcheck_determinism(scn) if bound >= 1 else explore.execute(scn)
            explore.run_one(scn, (), rep, stats)
            if params["cutsig"] in ("whole", "2cut") or params["cuts"] == [20]:
                rep.sample({"scenario": scn.name, "params": params, "deviation_bound": bound,
                            "points_after_handshake": len(base.points) - (base.explore_from or 0)})
        else:
            base = explore.execute(scn)
        if bound >= 1:
            firsts = explore.successors(base, ())
            explore.explore_subtree(scn, firsts[k::n], bound, rep, stats)
    rep.add(evaluations=stats["executions"], distinct=stats["executions"], executions=stats["executions"],
            scheduling_points=stats["points"])


def run(report, tier, seed):
    work = []
    nscn = 0
    for params, bound in plan(tier):
        nscn += 1
        n = 1 if bound == 0 else (8 if bound == 1 else 64)
        for k in range(n):
            work.append((params, bound, k, n))
    # cheap items (bound 0) are batched, expensive ones get their own shard
    cheap = [w for w in work if w[1] == 0]
    rest = [w for w in work if w[1] > 0]
    shards = [cheap[i::16] for i in range(16) if cheap[i::16]] + [[w] for w in rest]
    k = seed % max(1, len(shards))
    shards = shards[k:] + shards[:k]
    core.run_shards(report, _shard, shards, shard_timeout=6000)
    c = report.counters
    report.note(f"{nscn} scenarios")
    return {"_level_keys": {"states": c.get("executions", 0), "transitions": c.get("scheduling_points", 0),
                            "traces_validated_against_impl": c.get("executions", 0)}, "scenarios": nscn}


def replay(w):
    scn = Inbound(**w["params"])
    rt = explore.execute(scn, {int(i): int(a) for i, a in w["choices"]})
    errs = scn.oracle(rt)
    start = rt.explore_from or 0
    shown = 0
    for i, p in enumerate(rt.points[start:], start):
        if p.chosen or (p.kind not in ("sel.select", "time.sleep", "queue.empty", "queue.qsize") and shown < 250):
            shown += 1
            print(f"  [{i}] {p.thread:24s} {p.kind:14s} {p.label:28s} chosen={p.chosen} of {p.cands}")
    print("verdict:", rt.verdict, "| delivered", len(rt.observations.get("got", [])), "of", len(rt.observations.get("expect", [])))
    print("final states:", rt.final_states)
    for sig, text in errs:
        print(sig, "|", text)
    return bool(errs)
