# -*- coding: utf-8 -*-
"""C12 - Answers leaving a route carry the request's identity and a correct error flag (ENUM).

Typed request/answer pairs x Result-Code values x {Result-Code only, Experimental-Result only, both}
x request Session-Ids of every length residue x identifier boundary values, through decorate_answer
and through the real callback_route of an in-process Bromelia (message observed on the worker's send
queue).
"""
import inspect

from vk import absavp, core, inproc
from vk.ref import refcodec
from checks import c09, c17

LEVEL = "exploration"
RULE = ("every typed request class that has an answer class (25 pairs) x Result-Code alphabet (boundary set: "
        "all library constants + x000/x001/x999 of every family + 32-bit boundaries; on two pairs every code "
        "0..6999 quick / 0..65535 thorough; thorough also every code 0..6999 on all pairs) x {RC only, ER only, "
        "RC+ER, each of them with E preset by the handler, RC / RC+ER with an AVP changed in place after construction} x request Session-Id length residues 0..3 x identifier alphabet; two paths (decorate_answer, "
        "callback_route). A case is one (pair, code, mode, session-id, identifiers, path); distinct by "
        "construction; non-trivial = codes that are not multiples of 1000 or cases with an Experimental-Result")
ASSUMPTIONS = [
    "E flag oracle: for a sent answer whose Result-Code n has n % 1000 != 0, E set iff n // 1000 in {3,4,5}; "
    "multiples of 1000 are unconstrained; an answer sent without a Result-Code (dropped in favour of an "
    "Experimental-Result, or never there) must have E clear",
    "the handler returns a fresh answer of the request's answer class, with the E flag clear or already set by "
    "the handler (modes '+e')",
    "in-process Worker with a stand-in manager (vk/inproc.py); thresholds' timeouts set to 0",
]

IDS = [0, 1, 0x7fffffff, 0x80000000, 0xffffffff]
SIDS = [b"abcd;1;2", b"abcde;1;2", b"ab;10;20;x", b"abc;1;2"]   # length residues 0,1,2,3


def boundary_codes():
    consts = set(c17.library_constants().values())
    codes = set(consts)
    for fam in range(0, 8):
        codes |= {fam * 1000, fam * 1000 + 1, fam * 1000 + 999}
    codes |= {2 ** 31, 2 ** 32 - 1, 65535, 65536, 3008, 4100, 4181, 5012, 5017, 7048, 2024}
    return sorted(c for c in codes if 0 <= c < 2 ** 32)


def pairs():
    classes = c09.discover()
    out = []
    for key, ref in sorted(c09.REFCMDS.items()):
        if ref.get("pair") and key in classes and ref["pair"] in classes:
            out.append((key, ref["pair"]))
    return out


def make_request(key, sid, hbh, e2e):
    classes = c09.discover()
    plan = c09.Plan(key, classes[key], set(), 0, 0)
    req, _e, _h = c09.build(plan)
    if req.has_avp("session_id_avp"):
        # give the request the chosen Session-Id (bytes are carried unchanged)
        kwargs_sid = sid
        req.session_id_avp.data = kwargs_sid
        req.refresh()
    req.header.hop_by_hop = hbh
    req.header.end_to_end = e2e
    return req


def answer_params(akey):
    classes = c09.discover()
    return {n for n, _d in c09.params_of(classes[akey])}


def make_answer(akey, code, mode):
    """mode: 'rc' | 'er' | 'both', optionally suffixed '+e' (the handler has already set the E flag itself, as
    RFC 6733 asks of whoever builds an error answer). Returns None when the class cannot express the mode."""
    import bromelia.avps as A
    if mode.endswith("+e"):
        ans = make_answer(akey, code, mode[:-2])
        if ans is not None:
            ans.header.set_error_bit(True)
        return ans
    if mode.endswith("~"):
        # the handler changes an AVP of its answer in place after building it (no refresh() of its own)
        ans = make_answer(akey, code, mode[:-1])
        if ans is not None and ans.has_avp("origin_host_avp"):
            ans.origin_host_avp.data = b"a.much.longer.origin.host.example"
        elif ans is not None:
            return None
        return ans
    classes = c09.discover()
    cls = classes[akey]
    params = answer_params(akey)
    kwargs = {}
    for name, default in c09.params_of(cls):
        if default is None and name in cls.mandatory and name not in ("result_code",):
            kwargs[name] = c09.ctor_arg(c09.value_for(c09.avp_class_for(cls, name), 0))
    if mode in ("er", "both"):
        if "experimental_result" not in params:
            return None
        kwargs["experimental_result"] = [A.VendorIdAVP(10415), A.ExperimentalResultCodeAVP(code if mode == "er" else 5001)]
    if mode in ("rc", "both"):
        if "result_code" not in params:
            return None
        kwargs["result_code"] = code.to_bytes(4, "big")
    else:
        if "result_code" in params:
            sig = dict(c09.params_of(cls))
            if sig["result_code"] is not None and "result_code" in cls.mandatory:
                return None     # Result-Code cannot be left out of this answer class
            kwargs["result_code"] = None
    return cls(**kwargs)


def judge(rep, req, ans_sent, code, mode, path, pair, wit):
    rk, ak = pair
    errs = []
    h, rh = ans_sent.header, req.header
    if h.get_application_id() != rh.get_application_id():
        errs.append(("application-id", f"Application-ID {h.get_application_id()} != request's {rh.get_application_id()}"))
    if h.get_hop_by_hop() != rh.get_hop_by_hop():
        errs.append(("hop-by-hop", f"Hop-by-Hop {h.get_hop_by_hop():#x} != request's {rh.get_hop_by_hop():#x}"))
    if h.get_end_to_end() != rh.get_end_to_end():
        errs.append(("end-to-end", f"End-to-End {h.get_end_to_end():#x} != request's {rh.get_end_to_end():#x}"))
    if h.is_request():
        errs.append(("r-flag", "answer has the R flag"))
    try:
        dump = ans_sent.dump()
        dec = refcodec.dec_msgs(dump)
    except BaseException as e:  # noqa
        rep.violation(f"C12:{path}:dump-raises-{type(e).__name__}", f"{ak}: {e}", wit)
        return
    if h.get_length() != len(dump):
        errs.append(("message-length", f"Message Length {h.get_length()} != {len(dump)} bytes"))
    avps = dec[0][6]
    sids = [d for c, _f, v, d in avps if c == 263 and v is None]
    if req.has_avp("session_id_avp"):
        if sids != [req.session_id_avp.data]:
            errs.append((f"session-id:mod{len(req.session_id_avp.data) % 4}",
                         f"Session-Id on the wire {sids!r} != request's {req.session_id_avp.data!r}"))
    rcs = [int.from_bytes(d, "big") for c, _f, v, d in avps if c == 268 and v is None]
    ers = [d for c, _f, v, d in avps if c == 297 and v is None]
    if rcs and ers:
        errs.append(("rc-with-er", "Result-Code sent alongside Experimental-Result"))
    if len(rcs) > 1:
        errs.append(("rc-twice", f"{len(rcs)} Result-Code AVPs"))
    e_flag = h.is_error()
    if rcs and not ers:
        n = rcs[0]
        if n != code:
            errs.append(("rc-value", f"Result-Code {n} sent, handler returned {code}"))
        if n % 1000:
            want = n // 1000 in (3, 4, 5)
            if e_flag != want:
                errs.append((f"e-flag:{'missing' if want else 'spurious'}:fam{min(n // 1000, 7)}",
                             f"Result-Code {n}: E flag is {e_flag}, family {n // 1000} demands {want}"))
    if not rcs and e_flag:
        # the statement ties the flag to the Result-Code that is sent: none sent, flag clear
        errs.append(("e-flag:without-result-code", "E flag set on an answer sent without a Result-Code"
                                                   + (" (Experimental-Result only)" if ers else "")))
    if h.get_flags() & 0x0f:
        errs.append(("reserved-flags", f"flags 0x{h.get_flags():02x}"))
    for k, text in dict(errs).items():
        rep.violation(f"C12:{path}:{k}", f"{rk}->{ak} code={code} mode={mode}: {text}", wit)


def run_case(rep, app, workers, pair, code, mode, sid, hbh, e2e, paths):
    import bromelia.bromelia as BB
    rk, ak = pair
    wit = {"pair": list(pair), "code": code, "mode": mode, "sid": sid.hex(), "hbh": hbh, "e2e": e2e}
    n = 0
    for path in paths:
        wit = dict(wit, path=path)
        try:
            req = make_request(rk, sid, hbh, e2e)
            ans = make_answer(ak, code, mode)
        except BaseException as e:  # noqa
            rep.count(f"unbuildable:{type(e).__name__}")
            return n
        if ans is None:
            return n
        if req.has_avp("session_id_avp") and not ans.has_avp("session_id_avp"):
            return n      # outside the typed-class domain
        n += 1
        try:
            if path == "decorate":
                sent = BB.decorate_answer(ans, req)
            else:
                appid = req.header.application_id
                worker = app.associations.get(appid)
                if worker is None:
                    n -= 1
                    continue
                app.routes = {appid: {req.header.command_code: (lambda r, _a=ans: _a)}}
                app.callback_route(req)
                msgs = inproc.drain(worker)
                if len(msgs) != 1:
                    rep.violation(f"C12:route:{len(msgs)}-messages-sent", f"{rk}: {len(msgs)} messages on the send queue", wit)
                    continue
                sent = msgs[0]
        except BaseException as e:  # noqa
            rep.violation(f"C12:{path}:raises-{type(e).__name__}:{mode}",
                          f"{rk}->{ak} code={code} mode={mode}: {type(e).__name__}: {e}", wit)
            for w in workers.values():
                inproc.drain(w)
            continue
        judge(rep, req, sent, code, mode, path, pair, wit)
    return n


def part(rep, arg):
    pair_list, codes, modes, sids, ids, paths = arg
    app, workers = inproc.make_bromelia(list(inproc.APPS))
    n = nontrivial = 0
    for pair in pair_list:
        for code in codes:
            for mode in modes:
                for sid in sids:
                    for hbh, e2e in ids:
                        k = run_case(rep, app, workers, pair, code, mode, sid, hbh, e2e, paths)
                        n += k
                        if code % 1000 or mode != "rc":
                            nontrivial += k
    rep.add(evaluations=n, distinct=nontrivial, answer_cases=n)
    if pair_list:
        rep.sample({"pair": list(pair_list[0]), "code": codes[0], "mode": modes[0], "sid": sids[0].decode(),
                    "identifiers": list(ids[0]), "paths": list(paths)})


def _shard(rep, arg):
    part(rep, arg)


def run(report, tier, seed):
    ps = pairs()
    k = seed % len(ps)
    ps = ps[k:] + ps[:k]
    bcodes = boundary_codes()
    idpairs = [(a, b) for a in IDS for b in IDS]
    both = ("decorate", "route")
    shards = []
    # (a) all pairs x boundary codes x all modes x all sids x one identifier pair, both paths
    for p in ps:
        shards.append(([p], bcodes, ("rc", "er", "both"), SIDS, [(0x11223344, 0x55667788)], both))
        shards.append(([p], bcodes, ("rc+e", "both+e", "er+e"), SIDS[:2], [(0x11223344, 0x55667788)], both))
        shards.append(([p], [2001, 5012], ("rc~", "both~"), SIDS, [(0x11223344, 0x55667788)], both))
    # (b) all pairs x identifier alphabet (complete product) x one failing code
    shards.append((ps, [5012], ("rc",), SIDS[:1], idpairs, both))
    # (c) every code in a range on two pairs (thorough: all pairs 0..6999, two pairs 0..65535)
    full_pairs = [p for p in ps if p[0] in ("etsi_3gpp_s6a.UpdateLocationRequest", "etsi_3gpp_rx.SessionTerminationRequest")]
    top = 65536 if tier == "thorough" else 7000
    step = 1000 if tier == "quick" else 2048
    for p in full_pairs:
        for lo in range(0, top, step):
            shards.append(([p], list(range(lo, min(top, lo + step))), ("rc", "both"), SIDS[:1], [(1, 2)], ("decorate",)))
    if tier == "thorough":
        for p in ps:
            if p in full_pairs:
                continue
            for lo in range(0, 7000, 3500):
                shards.append(([p], list(range(lo, lo + 3500)), ("rc",), SIDS[1:2], [(1, 2)], ("decorate",)))
    core.run_shards(report, _shard, shards)
    report.note(f"{len(ps)} request/answer pairs, {len(bcodes)} boundary codes")
    return {"pairs": len(ps)}


def replay(w):
    rep = core.Report("C12")
    app, workers = inproc.make_bromelia(list(inproc.APPS))
    run_case(rep, app, workers, tuple(w["pair"]), w["code"], w["mode"], bytes.fromhex(w["sid"]), w["hbh"], w["e2e"],
             (w.get("path", "decorate"),))
    for v in rep.violations.values():
        print(v.signature, "|", v.what)
    return bool(rep.violations)
