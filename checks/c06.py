# -*- coding: utf-8 -*-
"""C06 - The peer state machine follows RFC 6733 and opens only for the configured peer, and
C07 - base-protocol answers echo the identifiers of the request they answer (HIST on the virtual runtime).

Breadth-first search over event histories (peer messages valid/invalid, connect ack/refusal, local
close/send, peer disconnect, idle periods, restart). Every history is replayed on a fresh real Diameter
object whose threads run under the deterministic default schedule of the virtual runtime (d = 0); events are
injected at quiescent points; after every event the reported state, the bytes emitted, the messages handed to
the application and the health of the threads are compared with a reference transition relation derived from
the statement (DESIGN.md Appendix A).
"""
from vk import core, hist
from vk.ref import refcodec
from vk.vrt import explore, node, shims

LEVEL = "model_checking"
RULE = ("explicit-state BFS over event histories on the real node (both roles; APPLICATIONS in {[], [S6a], "
        "[S6a, Gx]}): alphabet = {start, connect ack / refusal, valid CER/CEA, CER/CEA from another host, CER/CEA "
        "missing a mandatory AVP, valid/invalid DWR, DWA, DPR, DPA, application request/answer, request for another "
        "host / realm, two back-to-back base requests in one read, local close(), local send_message(), peer "
        "disconnect, idle watchdog period}, identifiers from {0, 1, 0x7fffffff, 0x80000000, 0xffffffff}; events "
        "are injected at quiescent points of a d = 0 execution; states are canonicalised (reported state, flags, "
        "transport/socket status, live threads, queue occupancy, locks, connection status) and the search runs to "
        "the stated depth or closure; every transition replays the whole history on fresh real objects")
ASSUMPTIONS = [
    "reference relation = DESIGN.md Appendix A (R1-R20, G1-G4): where the statement is silent every successor "
    "among {unchanged, Closing, Closed} is accepted",
    "the library's threads run under the deterministic fair default schedule between events (no deviations); "
    "schedule-dependent behaviour of the same code is explored by C04/C05/C08",
    "'handed to the application' is observed on the queue Diameter.get_message() reads from",
    "identifiers are opaque 4-byte tokens copied and compared for equality only, so boundary values plus two "
    "distinct values cover all pairs (data independence)",
    "STATE_MACHINE_TICKER = 0.25 s and SLEEP_TIMER = 1 s of virtual time (configuration constants)",
]

IDS = [0, 1, 0x7fffffff, 0x80000000, 0xffffffff]
OPENS = ("I-Open", "R-Open")
SETTLE = 2.0


# ---------------------------------------------------------------------------------------------------------------
# one replayed session
# ---------------------------------------------------------------------------------------------------------------

class Session:
    def __init__(self, rt, role, apps, watchdog=30):
        self.rt, self.role, self.apps = rt, role, apps
        self.node = node.Node(rt, role, apps, watchdog=watchdog)
        self.d = self.node.diameter
        self.peer = self.node.peer
        self.tm = shims.make_time()
        self.started = 0
        self.out_positions = {}
        self.conn_no = 0
        self.obs = []
        self.idseq = 0
        self.open_cause = False
        self.app_thread = None

    # -- helpers ---------------------------------------------------------------------------------------------
    def ids(self, k=None):
        self.idseq += 1
        a = IDS[(self.idseq if k is None else k) % len(IDS)]
        b = IDS[(self.idseq * 2 + 1 if k is None else k + 2) % len(IDS)]
        return a, b

    def conn(self):
        return self.peer.conn

    def conn_status(self):
        c = self.conn()
        if c is None:
            return "none"
        if c.node_closed:
            return "node-closed"
        if c.eof:
            return "peer-closed"
        return c.state

    def can_send(self):
        c = self.conn()
        return c is not None and c.state == "established" and not c.node_closed and not c.eof

    def new_output(self):
        c = self.conn()
        if c is None:
            return []
        pos = self.out_positions.get(id(c), 0)
        data = bytes(c.outbox)[pos:]
        msgs, rest = node.split_stream(data)
        self.out_positions[id(c)] = pos + len(data) - len(rest)
        return msgs

    def delivered(self):
        a = self.d._association
        if a is None:
            return []
        q = a.postprocess_recv_messages
        out = []
        while q._q:
            out.append(q._q.popleft())
        return out

    def snapshot(self, event, extra=None):
        a = self.d._association
        tr = a.transport if a is not None else None
        emitted = []
        for m in self.new_output():
            h = node.header_of(m)
            try:
                avps = refcodec.dec_msgs(m)[0][6]
            except refcodec.RefDecodeError:
                avps = []
            byc = {c: d for c, f, v, d in avps if v is None}
            emitted.append({"code": h["code"], "request": h["request"], "hbh": h["hbh"], "e2e": h["e2e"],
                            "origin_host": byc.get(264, b"").decode("latin1"), "origin_realm": byc.get(296, b"").decode("latin1"),
                            "result_code": int.from_bytes(byc[268], "big") if 268 in byc else None, "flags": h["flags"]})
        delivered = [(m.header.get_command_code(), m.header.get_hop_by_hop()) for m in self.delivered()]
        socks = [s for s in self.rt.net.sockets if s.conn is not None and s.conn is self.conn()]
        regs = [s for sel in self.rt.net.selectors for s in sel._map if s.conn is not None and s.conn is self.conn()]
        live = sorted(t.name for t in self.rt.threads if t.library and t.state != "done")
        crashed = [(t.name, type(t.exc).__name__, str(t.exc)[:80]) for t in self.rt.threads if t.exc is not None and t.library]
        o = {
            "event": event, "state": self.d.get_current_state(), "emitted": emitted, "delivered": delivered,
            "conn": self.conn_status(), "transport_released": tr is None,
            "sock_closed": all(s.closed for s in socks) if socks else None, "sock_registered": bool(regs),
            "live": live, "crashed": crashed,
            "assoc_lock": a.lock.owner_name() if a is not None else None,
            "pp_lock": a.postprocess_recv_messages_lock.owner_name() if a is not None else None,
            "tr_lock": tr.lock.owner_name() if tr is not None else None,
            "state_is_active": a.state_is_active if a is not None else None,
            "stop_threads": a._stop_threads if a is not None else None,
            "queues": (len(a._recv_messages._q), len(a._send_messages._q)) if a is not None else None,
            "psm_running": self.d._peer_state_machine.is_running if self.d._peer_state_machine else None,
            # a local stop asked for before the connection was Open (remembered by the node until it gets there)
            "stop_req": bool(getattr(a, "stop_requested", False)) if a is not None else None,
            # base requests of the node that still await their answer (by command code)
            "pending": tuple(sorted(m.header.get_command_code() for m in list(a.pending_requests.values()))) if a is not None else None,
        }
        if extra:
            o.update(extra)
        self.obs.append(o)
        return o

    # -- events ------------------------------------------------------------------------------------------------
    def apply(self, ev):
        kind = ev[0]
        extra = {}
        T = shims.Thread
        settle = SETTLE
        restore = None
        try:
            if kind == "start":
                self.started += 1
                self.peer.conn = None          # the previous connection (if any) is history
                if self.role == "client":
                    self.d.start()
                else:
                    self.app_thread = T(target=self.d.start, name=f"app-start{self.started}")
                    self.app_thread.start()
            elif kind == "ack":
                self.peer.wait_connect(timeout=2.0)
                self.peer.accept()
            elif kind == "refuse":
                self.peer.wait_connect(timeout=2.0)
                self.peer.refuse()
            elif kind == "connect":
                self.peer.connect((node.LOCAL["ip"], node.LOCAL["port"]), timeout=2.0)
            elif kind == "msg":
                data, meta = self.wire(ev[1], ev[2] if len(ev) > 2 else None)
                extra["sent"] = meta
                self.peer.send(data)
            elif kind == "backlog+msg":
                # base requests arriving while the node has more queued for sending than one send batch takes
                # (send-buffer limit lowered to 96 bytes for this step: one application message per batch)
                from checks.c05 import make_message
                restore = self.node.SU.SEND_BUFFER_MAXIMUM_SIZE
                self.node.SU.SEND_BUFFER_MAXIMUM_SIZE = 96
                data, meta = self.wire(ev[1], None)
                extra["sent"] = meta
                self.d.send_messages([make_message(8, i) for i in range(3)])
                self.peer.send(data)
                settle = SETTLE + 1.0
            elif kind == "burst":
                # a lively connection: twelve watchdog exchanges one after the other (each DWR is sent when the
                # answer to the previous one has arrived), about two virtual seconds in all
                reqs = []
                for i in range(12):
                    hbh, e2e = 0x7b000000 + i, 0x7c000000 + i
                    reqs.append((280, hbh, e2e))
                    before = len(node.split_stream(self.peer.received())[0])
                    self.peer.send(node.dwr(hbh, e2e))
                    self.peer.wait_for(lambda: len(node.split_stream(self.peer.received())[0]) > before, "dwa", timeout=3.0)
                extra["sent"] = {"what": "burst", "requests": reqs}
            elif kind == "msg+close":
                # an inbound message and a local stop pending in the same tick
                data, meta = self.wire(ev[1], None)
                extra["sent"] = meta
                self.peer.send(data)
                self.d.close()
                settle = SETTLE + 2.0
            elif kind == "msg+eof":
                data, meta = self.wire(ev[1], None)
                extra["sent"] = meta
                self.peer.send(data)
                self.peer.close()
            elif kind == "eof":
                self.peer.close()
            elif kind == "partial+eof":
                # the peer goes away in the middle of a message: its first bytes arrive, then the end of stream
                data, meta = self.wire(ev[1], None)
                self.peer.send(data[:27])
                self.peer.wait_for(lambda: not self.peer.conn.inbox, "partial-read", timeout=3.0)
                self.peer.close()
            elif kind == "close":
                self.d.close()
                settle = SETTLE + 2.0
            elif kind == "send":
                from checks.c05 import make_message
                m = make_message(9, 0)
                extra["submitted"] = m.dump().hex()
                self.d.send_message(m)
            elif kind == "idle":
                settle = ev[1]
            else:
                raise ValueError(ev)
        except BaseException as e:  # noqa
            import bromelia.exceptions as X
            if isinstance(e, shims.sched.Abort):
                raise
            extra["raised"] = (type(e).__name__, type(e).__module__ == X.__name__, str(e)[:80])
        self.tm.sleep(settle)
        if restore is not None:
            self.node.SU.SEND_BUFFER_MAXIMUM_SIZE = restore
        return self.snapshot(list(ev), extra)

    def wire(self, what, idk):
        """-> (bytes, meta) for the peer message `what`."""
        hbh, e2e = self.ids(idk)
        apps = self.apps or ()
        meta = {"what": what, "hbh": hbh, "e2e": e2e}
        B = {
            "cer": lambda: node.cer(hbh, e2e, apps=apps),
            "cer-otherhost": lambda: node.cer(hbh, e2e, host="intruder.example", apps=apps),
            "cer-otherrealm": lambda: node.cer(hbh, e2e, realm="realm.intruder", apps=apps),
            "cer-incomplete": lambda: node.cer(hbh, e2e, drop=257, apps=apps),
            "cer-otherhost-2ip": lambda: node.cer(hbh, e2e, host="intruder.example", apps=apps, dup=257),
            "cer-2ip": lambda: node.cer(hbh, e2e, apps=apps, dup=257),
            "dwr-otherhost-2realm": lambda: node.dwr(hbh, e2e, host="intruder.example", dup=296),
            # well-framed base messages that decode without error and then meet the validators
            "dwr-badutf8": lambda: node.dwr(hbh, e2e, host=b"\xff\xfe"),
            "dwr-badutf8-realm": lambda: node.dwr(hbh, e2e, realm=b"\xc3\x28"),
            "cer-badutf8": lambda: node.cer(hbh, e2e, host=b"\xff\xfe", apps=apps),
            "cea-badutf8": lambda: node.cea(*self.last_request_ids(257), realm=b"\xc3\x28", apps=apps),
            "cer-vendor257": lambda: node.cer(hbh, e2e, apps=apps, extra=[(257, 0x80, 9999, b"")]),
            # somebody else's CER / CEA padded with foreign-vendor AVPs whose codes are those of mandatory base
            # AVPs (every vendor numbers its own AVPs: legal on the wire, no part of the peer's identity)
            "cer-otherhost-vendorpad": lambda: node.cer(hbh, e2e, host="intruder.example", apps=apps, extra=FOREIGN_PAD),
            "cer-otherrealm-vendorpad": lambda: node.cer(hbh, e2e, realm="realm.intruder", apps=apps, extra=FOREIGN_PAD[:1]),
            "cea-otherhost-vendorpad": lambda: node.cea(*self.last_request_ids(257), host="intruder.example", apps=apps, extra=FOREIGN_PAD),
            "cea-otherrealm-vendorpad": lambda: node.cea(*self.last_request_ids(257), realm="realm.intruder", apps=apps, extra=FOREIGN_PAD[:1]),
            # the configured peer's CER with a foreign-vendor AVP numbered 264 in front (no part of its identity), and
            # a CER lacking its Host-IP-Address but carrying a foreign-vendor AVP numbered 257
            "cer-vendor264-first": lambda: node.cer(hbh, e2e, apps=apps, extra=[(264, 0x80, 99999, b"someone.else")]),
            "cer-noip-vendor257": lambda: node.cer(hbh, e2e, apps=apps, drop=257, extra=[(257, 0x80, 99999, b"\x00\x01\x7f\x00\x00\x09")]),
            # the configured peer refuses: a CEA with an error Result-Code
            "cea-refusal": lambda: node.cea(*self.last_request_ids(257), result=5010, apps=apps),
            # two capabilities requests back to back (different identifiers) in one read
            "cer+cer": lambda: node.cer(hbh, e2e, apps=apps) + node.cer(e2e ^ 0x55, hbh ^ 0xaa, apps=apps),
            "cer+app": lambda: node.cer(hbh, e2e, apps=apps) + node.app_request(self.idseq, hbh=hbh ^ 1),
            # requests marked as potentially retransmitted (T flag, RFC 6733 section 3): requests all the same
            "dwr-tflag": lambda: node.dwr(hbh, e2e, flags=0x90),
            "dpr-tflag": lambda: node.dpr(hbh, e2e, flags=0x90),
            "cer-tflag": lambda: node.cer(hbh, e2e, apps=apps, flags=0x90),
            "dpr-busy": lambda: node.dpr(hbh, e2e, cause=1),
            "dpr-dontwant": lambda: node.dpr(hbh, e2e, cause=2),
            "cea": lambda: node.cea(hbh, e2e, apps=apps),
            "cea-echo": lambda: node.cea(*self.last_request_ids(257), apps=apps),
            "cea-otherhost": lambda: node.cea(*self.last_request_ids(257), host="intruder.example", apps=apps),
            "cea-incomplete": lambda: node.cea(*self.last_request_ids(257), drop=268, apps=apps),
            "cea-otherhost-2ip": lambda: node.cea(*self.last_request_ids(257), host="intruder.example", apps=apps, dup=257),
            "cea-echo-2ip": lambda: node.cea(*self.last_request_ids(257), apps=apps, dup=257),
            "dwr": lambda: node.dwr(hbh, e2e),
            "dwr-otherhost": lambda: node.dwr(hbh, e2e, host="intruder.example"),
            "dwa": lambda: node.dwa(hbh, e2e),
            "dwa-otherhost": lambda: node.dwa(hbh, e2e, host="intruder.example"),
            # answers that echo the identifiers of the request the node really sent (a second one is a duplicate)
            "dwa-echo": lambda: node.dwa(*self.last_request_ids(280)),
            "dpa-echo": lambda: node.dpa(*self.last_request_ids(282)),
            "dpr": lambda: node.dpr(hbh, e2e),
            "dpr-otherhost": lambda: node.dpr(hbh, e2e, host="intruder.example"),
            "dpa": lambda: node.dpa(hbh, e2e),
            "app-req": lambda: node.app_request(self.idseq, hbh=hbh),
            "app-ans": lambda: node.app_answer(self.idseq, hbh=hbh),
            "req-otherhost": lambda: node.app_request(self.idseq, hbh=hbh, dest_host="elsewhere.example"),
            "req-otherrealm": lambda: node.app_request(self.idseq, hbh=hbh, dest_realm="realm.elsewhere"),
            "dwr+dwr": lambda: node.dwr(hbh, e2e) + node.dwr(e2e ^ 0x55, hbh ^ 0xaa),
            "app+dpr": lambda: node.app_request(self.idseq, hbh=hbh ^ 1) + node.dpr(hbh, e2e),
            "dwr+dpr": lambda: node.dwr(hbh, e2e) + node.dpr(e2e ^ 0x55, hbh ^ 0xaa),
            "cer+dwr": lambda: node.cer(hbh, e2e, apps=apps) + node.dwr(e2e ^ 0x55, hbh ^ 0xaa),
            "dwr+app": lambda: node.dwr(hbh, e2e) + node.app_request(self.idseq, hbh=hbh ^ 1),
        }
        data = B[what]()
        if what == "dwr+dwr":
            meta["requests"] = [(280, hbh, e2e), (280, e2e ^ 0x55, hbh ^ 0xaa)]
        elif what == "app+dpr":
            meta["requests"] = [(282, hbh, e2e)]
        elif what == "dwr+dpr":
            meta["requests"] = [(280, hbh, e2e), (282, e2e ^ 0x55, hbh ^ 0xaa)]
        elif what == "cer+dwr":
            meta["requests"] = [(257, hbh, e2e), (280, e2e ^ 0x55, hbh ^ 0xaa)]
        elif what == "cer+cer":
            meta["requests"] = [(257, hbh, e2e), (257, e2e ^ 0x55, hbh ^ 0xaa)]
        elif what == "cer+app":
            meta["requests"] = [(257, hbh, e2e)]
        elif what in ("cer", "dwr", "dpr", "dwr+app", "cer-2ip", "dpr-busy", "dpr-dontwant", "cer-vendor257", "dwr-tflag", "dpr-tflag", "cer-tflag", "cer-vendor264-first"):
            meta["requests"] = [({"cer": 257, "dwr": 280, "dpr": 282, "dwr+app": 280, "cer-2ip": 257, "dpr-busy": 282,
                                  "dpr-dontwant": 282, "cer-vendor257": 257, "dwr-tflag": 280, "dpr-tflag": 282, "cer-tflag": 257, "cer-vendor264-first": 257}[what], hbh, e2e)]
        return data, meta

    def last_request_ids(self, code):
        for o in reversed(self.obs):
            for m in o["emitted"]:
                if m["code"] == code and m["request"]:
                    return m["hbh"], m["e2e"]
        return 0x11111111, 0x22222222


# ---------------------------------------------------------------------------------------------------------------
# the reference relation (DESIGN.md Appendix A) and the per-step oracle
# ---------------------------------------------------------------------------------------------------------------

ELECTION = ("Wait-Returns", "Wait-Conn-Ack-Elect", "Wait-Conn-Ack/Elect")


FOREIGN_PAD = [(257, 0x80, 99999, b"\x00\x01\x7f\x00\x00\x09"), (266, 0x80, 99999, (7).to_bytes(4, "big")), (269, 0x80, 99999, b"pad")]


def judge(role, prev, o, history_ctx):
    """prev: previous observation (or None); o: observation after the event. -> [(signature, text)]"""
    errs = []
    ev = o["event"]
    kind = ev[0]
    if kind == "backlog+msg":
        kind = "msg"          # judged as the same inbound message(s); the backlog only changes the timing
    if kind == "partial+eof":
        kind = "eof"          # an incomplete message is no message: judged as the peer's disconnect
    what = ev[1] if kind == "msg" else None
    ps = prev["state"] if prev else "Closed"
    ns = o["state"]
    em = o["emitted"]
    sig = lambda s: f"C06:{role}:{s}"

    def emitted(code, request):
        return [m for m in em if m["code"] == code and m["request"] == request]

    def allow(states, rule):
        if ns not in states:
            errs.append((sig(f"{rule}:{ps}->{ns}:{kind if what is None else what}"),
                         f"{rule}: {role} in {ps} on {ev}: state became {ns}, statement allows {sorted(states)}"))

    # G1: no thread of the node died with an exception; the tick thread keeps ticking unless Closed
    for name, exc, text in o["crashed"]:
        if prev is None or (name, exc, text) not in [tuple(x) for x in prev["crashed"]]:
            short = name.rstrip("0123456789")
            errs.append((sig(f"G1:thread-died:{short}:{exc}:{kind if what is None else what}"),
                         f"G1: thread {name} died with {exc}: {text} after {ev} in {ps}"))
    if ns != "Closed" and not any("psm_thread" in n for n in o["live"]) and history_ctx["started"]:
        errs.append((sig(f"G1:tick-thread-gone:{ns}"), f"G1: state is {ns} but the state-machine thread is gone after {ev}"))
    # G2: Closed after a connection existed => socket closed/unregistered, transport released
    if ns == "Closed" and ps != "Closed":
        if o["transport_released"] is False or o["sock_registered"] or o["sock_closed"] is False:
            errs.append((sig(f"G2:closed-not-released:{kind if what is None else what}"),
                         f"G2: state Closed after {ev} but transport_released={o['transport_released']} "
                         f"socket_closed={o['sock_closed']} still_registered={o['sock_registered']}"))
    # G3: nothing handed to the application that was received while not Open
    if o["delivered"] and ps not in OPENS and not (what == "cer+app" and ns in OPENS):
        errs.append((sig(f"G3:delivered-while-{ps}"), f"G3: {o['delivered']} handed to the application in state {ps}"))
    # G5: base-protocol messages are consumed by the state machine, never handed to the application
    base_delivered = [d for d in o["delivered"] if d[0] in (257, 280, 282)]
    if base_delivered:
        errs.append((sig(f"G5:base-message-delivered:{kind if what is None else what}"),
                     f"G5: base-protocol message(s) {base_delivered} handed to the application after {ev} in {ps}"))
    # R20 (converse): the watchdog request is for an *idle* connection "after the configured timeout": with a 30 s
    # timeout no history explored here (<= 14 steps of <= 3.5 virtual seconds) leaves the connection idle that long
    if history_ctx.get("watchdog", 30) >= 30 and kind != "idle" and emitted(280, True):
        errs.append((sig(f"R20:premature-watchdog:{kind if what is None else what}"),
                     f"R20: a DWR was emitted after {ev} although the connection has not been idle for WATCHDOG_TIMEOUT=30 s"))
    # G4: Open only through R4 / R8
    if ns in OPENS and ps not in OPENS:
        ok = (role == "client" and ps == "Wait-I-CEA" and what in ("cea-echo", "cea-echo-2ip")) or \
             (role == "server" and ps == "Closed" and what in ("cer", "cer-tflag", "cer-vendor264-first", "cer+dwr", "cer+cer", "cer+app", "cer-2ip", "cer-vendor257"))
        if not ok:
            errs.append((sig(f"G4:opened-without-capabilities-exchange:{ps}:{kind if what is None else what}"),
                         f"G4: state became {ns} from {ps} on {ev}"))
    local = (node.LOCAL["host"], node.LOCAL["realm"])

    if "raised" in o and not o["raised"][1]:
        errs.append((sig(f"api-raised-{o['raised'][0]}:{kind}"), f"local {kind} raised non-library {o['raised']}"))

    if role == "client":
        if kind == "start" and ps == "Closed":
            allow({"Wait-Conn-Ack", "Closed"}, "R1")
        elif kind == "ack" and ps == "Wait-Conn-Ack":
            allow({"Wait-I-CEA"}, "R2")
            cers = emitted(257, True)
            if len(cers) != 1 or (cers[0]["origin_host"], cers[0]["origin_realm"]) != local:
                errs.append((sig("R2:cer-emission"), f"R2: after connect ack {len(cers)} CER(s) emitted: {cers}"))
        elif kind == "refuse" and ps == "Wait-Conn-Ack":
            allow({"Closed"}, "R3")
        elif ps == "Wait-I-CEA" and kind == "msg":
            if what == "cea-echo" and prev and prev.get("stop_req"):
                # the application has already asked to stop: the connection may open only to be closed at once
                allow({"I-Open", "Closing", "Closed"}, "R4")
            elif what == "cea-echo":
                allow({"I-Open"}, "R4")
            elif what == "cea-echo-2ip":
                # a second Host-IP-Address is legitimate (RFC 6733: 1* { Host-IP-Address }); the statement only
                # says when the connection may NOT open, so a stricter validator is not a violation
                allow({"I-Open", "Wait-I-CEA", "Closed"} | ({"Closing"} if prev and prev.get("stop_req") else set()), "R4")
            elif what in ("cea-otherhost", "cea-otherhost-2ip", "cea-incomplete", "cea", "cea-badutf8", "cea-otherhost-vendorpad",
                          "cea-otherrealm-vendorpad", "cea-refusal"):
                allow({"Wait-I-CEA", "Closed"}, "R5")
            elif what == "cer":
                # RFC 6733 election (R-Conn-CER while awaiting the CEA): the unimplemented Wait-Returns state
                # is accepted here, as Appendix A says
                allow({"Closed", "Wait-Returns"}, "R6")
            else:
                allow({"Closed"}, "R6")
        elif ps == "Wait-I-CEA" and kind == "eof":
            allow({"Closed"}, "R7")
        elif ps in ELECTION and kind == "eof":
            # the election states are not implemented, but the connection they sit on can end like any other
            allow({"Closed"}, "R7e")
        elif ps in ELECTION and kind == "close":
            allow({"Closed", "Closing"}, "R16e")
    else:
        if ps == "Closed" and kind == "msg" and o["conn"] != "none":
            if what in ("cer", "cer+dwr", "cer+cer", "cer+app", "cer-tflag", "cer-vendor264-first"):
                allow({"R-Open"}, "R8")
                # what the peer pipelined behind its CER is handled once Open, after the CEA is out
                if len(emitted(257, False)) < 1:
                    errs.append((sig(f"R8:no-cea:{what}"), f"R8: valid CER ({what}) answered by no CEA"))
                if what == "cer+dwr" and len(emitted(280, False)) != 1:
                    errs.append((sig("R10:dwa-count:cer+dwr"), f"R10: the DWR sent right behind the CER was answered by "
                                                               f"{len(emitted(280, False))} DWA(s)"))
                if what == "cer+app" and len(o["delivered"]) != 1:
                    errs.append((sig("R14:delivery:cer+app"), f"R14: the request sent right behind the CER was handed over "
                                                             f"{len(o['delivered'])} times"))
            elif what in ("cer-2ip", "cer-vendor257"):
                # a valid CER of the configured peer with an additional (legitimate / foreign vendor) AVP
                allow({"R-Open", "Closed"}, "R8")
            else:
                allow({"Closed"}, "R9")
                if o["delivered"]:
                    errs.append((sig("R9:delivered"), f"R9: {o['delivered']} handed to the application while Closed"))

    if ps in OPENS and kind == "msg+close":
        allow({"Closing", "Closed"}, "R16")
        if len(emitted(282, True)) != 1:
            errs.append((sig(f"R16:dpr-count:pending-{what if what else ev[1]}"),
                         f"R16: close() with {ev[1]} pending emitted {len(emitted(282, True))} DPR(s)"))
    elif ps in OPENS and kind == "msg+eof":
        allow({"Closed"}, "R19")
    elif ps in OPENS:
        if kind == "msg":
            if what in ("dwr", "dwr-tflag"):
                allow({ps}, "R10")
                if len(emitted(280, False)) != 1:
                    errs.append((sig("R10:dwa-count"), f"R10: valid DWR answered by {len(emitted(280, False))} DWA(s)"))
            elif what in ("dwr+dwr",):
                allow({ps}, "R10")
                if len(emitted(280, False)) != 2:
                    errs.append((sig("R10:dwa-count-back-to-back"), f"R10: two DWRs answered by {len(emitted(280, False))} DWA(s)"))
            elif what == "dwr-otherhost-2realm":
                allow({ps, "Closing", "Closed"}, "R11")
            elif what == "dwa-echo" and prev and 280 in (prev.get("pending") or ()):
                # the answer to the node's outstanding watchdog request, from the configured peer
                allow({ps}, "R10")
            elif what == "dwa-echo":
                allow({ps, "Closing", "Closed"}, "R11")
            elif what in ("dwr-otherhost", "dwa", "dwa-otherhost", "cea", "cea-echo", "dpa", "cea-otherhost", "cea-incomplete",
                          "dwr-badutf8", "dwr-badutf8-realm", "cer-badutf8"):
                allow({ps, "Closing", "Closed"}, "R11")
            elif what in ("cer", "cer-otherhost", "cer-incomplete", "cer-otherrealm"):
                allow({ps} if what == "cer" else {ps, "Closing", "Closed"}, "R12")
            elif what in ("app+dpr", "dwr+dpr"):
                allow({"Closed"}, "R13")
                if len(emitted(282, False)) != 1:
                    errs.append((sig(f"R13:dpa-count:{what}"), f"R13: {what} in one read answered by {len(emitted(282, False))} DPA(s)"))
                if what == "app+dpr" and len(o["delivered"]) != 1:
                    errs.append((sig("R14:delivery:app+dpr"), f"R14: request before the DPR handed over {len(o['delivered'])} times"))
            elif what in ("dpr", "dpr-otherhost", "dpr-busy", "dpr-dontwant", "dpr-tflag"):
                allow({"Closed"}, "R13")
                if what != "dpr-otherhost" and len(emitted(282, False)) != 1:
                    errs.append((sig("R13:dpa-count" + (":tflag" if what == "dpr-tflag" else "")), f"R13: valid DPR answered by {len(emitted(282, False))} DPA(s)"))
            elif what in ("app-req", "app-ans"):
                allow({ps}, "R14")
                if len(o["delivered"]) != 1:
                    errs.append((sig(f"R14:delivery:{what}"), f"R14: {what} handed to the application {len(o['delivered'])} times"))
            elif what == "dwr+app":
                allow({ps}, "R14")
                if len(o["delivered"]) != 1 or len(emitted(280, False)) != 1:
                    errs.append((sig("R14:dwr+app"), f"R14: DWR+request in one read: {len(o['delivered'])} delivered, "
                                                     f"{len(emitted(280, False))} DWA(s)"))
            elif what in ("req-otherhost", "req-otherrealm"):
                allow({ps, "Closing", "Closed"}, "R15")
        elif kind == "close":
            allow({"Closing"}, "R16")
            if len(emitted(282, True)) != 1:
                errs.append((sig("R16:dpr-count"), f"R16: local stop emitted {len(emitted(282, True))} DPR(s)"))
        elif kind == "eof":
            allow({"Closed"}, "R19")
        elif kind == "idle":
            allow({ps}, "R20")
            W = history_ctx.get("watchdog", 30)
            dwrs = emitted(280, True)
            if ev[1] >= 2 * W + 2:
                if not dwrs:
                    errs.append((sig("R20:no-watchdog-request"), f"R20: idle for {ev[1]} s with WATCHDOG_TIMEOUT={W}: no DWR emitted"))
                elif len(dwrs) > ev[1] / W + 2:
                    errs.append((sig("R20:watchdog-flood"), f"R20: {len(dwrs)} DWRs in {ev[1]} s with WATCHDOG_TIMEOUT={W}"))
            for m in dwrs:
                if (m["origin_host"], m["origin_realm"]) != local:
                    errs.append((sig("R20:dwr-origin"), f"R20: DWR with origin {m['origin_host']}/{m['origin_realm']}"))
        elif kind == "burst":
            allow({ps}, "R10")
            if len(emitted(280, False)) != 12:
                errs.append((sig("R10:dwa-count-burst"), f"R10: twelve DWRs answered by {len(emitted(280, False))} DWA(s)"))
        elif kind == "send":
            allow({ps}, "send")
            if "submitted" in o and not o.get("raised"):
                pass
    elif ps == "Closing":
        if kind == "msg" and what in ("dpa", "dpa-echo"):
            allow({"Closed"}, "R17")
        elif kind == "msg":
            allow({"Closing", "Closed"}, "R18")
            if o["delivered"]:
                errs.append((sig("R18:delivered"), f"R18: {o['delivered']} handed to the application while Closing"))
        elif kind == "eof":
            allow({"Closed"}, "R19")
        if len(emitted(282, True)) > 0:
            errs.append((sig(f"R16:second-dpr:{kind if what is None else what}"), f"R16: another DPR emitted while Closing on {ev}"))

    # ---- C07: every CEA/DWA/DPA answers exactly one received request, echoing its identifiers -----------------
    reqs = list((o.get("sent") or {}).get("requests", []))
    answers = [m for m in em if not m["request"] and m["code"] in (257, 280, 282)]
    for a in answers:
        match = [r for r in reqs if r[0] == a["code"] and r[1] == a["hbh"] and r[2] == a["e2e"]]
        if not match:
            errs.append((f"C07:{role}:answer-without-matching-request:{a['code']}",
                         f"C07: emitted answer code={a['code']} hbh={a['hbh']:#x} e2e={a['e2e']:#x} after {ev}; "
                         f"requests received in this step: {reqs}"))
        else:
            reqs.remove(match[0])
        if (a["origin_host"], a["origin_realm"]) != local or a["result_code"] is None:
            errs.append((f"C07:{role}:answer-content:{a['code']}",
                         f"C07: answer {a} lacks the local origin or a Result-Code"))
        if a["flags"] & 0x80:
            errs.append((f"C07:{role}:answer-r-flag:{a['code']}", "C07: answer carries the R flag"))
    order = [(m["code"], m["hbh"], m["e2e"]) for m in answers]
    sent_order = [r for r in (o.get("sent") or {}).get("requests", []) if r in order]
    if order and sent_order and order != sent_order[:len(order)] and sorted(order) == sorted(sent_order):
        errs.append((f"C07:{role}:answers-out-of-order", f"C07: answers {order} not in the order of the requests {sent_order}"))
    return errs


# ---------------------------------------------------------------------------------------------------------------
# HIST model
# ---------------------------------------------------------------------------------------------------------------

class Replay(explore.Scenario):
    name = "fsm-history"
    horizon = 400.0
    max_points = 120000
    shared = frozenset()
    idle_window = 30.0
    real_timeout = 120.0

    def driver(self, rt):
        P = self.params
        s = Session(rt, P["role"], tuple(P["apps"]), watchdog=P.get("watchdog", 30))
        rt.observations["session"] = s
        for ev in P["history"]:
            s.apply(tuple(ev))
        rt.stop()


def run_history(role, apps, history, watchdog=30):
    scn = Replay(role=role, apps=list(apps), history=[list(e) for e in history], watchdog=watchdog)
    rt = explore.execute(scn)
    s = rt.observations.get("session")
    return rt, (s.obs if s else [])


MSGS_OPEN = ["dwr", "dwr-tflag", "dpr-tflag", "dwr-badutf8", "dwr-badutf8-realm", "cer-badutf8", "dpr-busy", "dpr-dontwant", "dwr-otherhost", "dwr-otherhost-2realm", "dwa", "dwa-otherhost", "dpr", "dpr-otherhost", "dpa", "cer", "cer-otherhost",
             "cea", "cea-echo", "dwa-echo", "app-req", "app-ans", "req-otherhost", "req-otherrealm", "dwr+dwr", "dwr+app"]
MSGS_WAIT_CEA = ["cea-echo", "cea-refusal", "cea-echo-2ip", "cea-badutf8", "cea-otherhost", "cea-otherhost-2ip", "cea-otherhost-vendorpad", "cea-otherrealm-vendorpad", "cea-incomplete", "cer", "dwr", "dwa", "dpr", "dpa", "app-req", "app-ans"]
MSGS_SERVER_CLOSED = ["cer", "cer-tflag", "cer-vendor264-first", "cer-noip-vendor257", "cer+cer", "cer+app", "cer-2ip", "cer-badutf8", "cer-vendor257", "cer-otherhost", "cer-otherhost-2ip", "cer-otherhost-vendorpad", "cer-otherrealm-vendorpad", "cer-otherrealm", "cer-incomplete", "dwr", "app-req", "cea", "dpr"]


class FsmModel:
    def __init__(self, role, apps, rich=False, max_restarts=1, watchdog=30):
        self.role, self.apps, self.rich, self.max_restarts = role, tuple(apps), rich, max_restarts
        self.watchdog = watchdog

    def initial(self):
        return [()]

    def build(self, history):
        rt, obs = run_history(self.role, self.apps, history, self.watchdog)
        return {"obs": obs, "verdict": rt.verdict, "history": history}

    def enabled(self, st):
        obs = st["obs"]
        last = obs[-1] if obs else None
        state = last["state"] if last else "Closed"
        conn = last["conn"] if last else "none"
        hist_ = st["history"]
        starts = sum(1 for e in hist_ if e[0] == "start")
        evs = []
        started_now = bool(hist_) and any(e[0] == "start" for e in hist_)
        live_psm = last is not None and any("psm_thread" in n for n in last["live"])
        if state == "Closed" and not live_psm and starts <= self.max_restarts and (not obs or conn in ("none", "node-closed", "refused", "peer-closed", "closed")):
            if starts == 0 or (last is not None and last["transport_released"] is not False):
                evs.append(("start",))
        if self.role == "client":
            if state == "Wait-Conn-Ack" and conn in ("none", "pending", "node-closed") and hist_ and hist_[-1][0] == "start":
                evs += [("ack",), ("refuse",)]
        else:
            if hist_ and hist_[-1][0] == "start":
                evs.append(("connect",))
        established = conn == "established"
        if established:
            if state == "Wait-I-CEA":
                evs += [("msg", m) for m in MSGS_WAIT_CEA]
            elif state in OPENS:
                evs += [("msg", m) for m in MSGS_OPEN]
                evs += [("msg", "app+dpr"), ("msg", "dwr+dpr")]
                evs += [("msg+close", "app-req"), ("msg+close", "dwr"), ("msg+eof", "app-req"), ("msg+eof", "dwr")]
                evs += [("backlog+msg", m) for m in ("dwr", "dwr+dwr", "dwr+app", "dwr+dpr")]
                if self.watchdog >= 30:
                    evs.append(("burst",))
                evs += [("send",), ("idle", 4.0 if self.watchdog > 10 else 2.0 * self.watchdog + 3.0)]
            elif state == "Closing":
                evs += [("msg", m) for m in ("dpa", "dpa-echo", "dwr", "app-req", "dpr", "dwa", "dwa-echo")]
            elif state == "Closed" and self.role == "server":
                evs += [("msg", m) for m in MSGS_SERVER_CLOSED + ["cer+dwr"]]
            evs.append(("eof",))
            if state in OPENS or state in ("Closing", "Wait-I-CEA"):
                evs.append(("partial+eof", "app-req" if state in OPENS else "dpa"))
        if state in OPENS or state in ("Closing", "Wait-I-CEA") or state in ELECTION:
            evs.append(("close",))
        return evs

    def step(self, history, op):
        nh = tuple(history) + (op,)
        rt, obs = run_history(self.role, self.apps, nh, self.watchdog)
        errs = []
        if len(obs) == len(nh):
            prev = obs[-2] if len(obs) > 1 else None
            ctx = {"started": any(e[0] == "start" for e in nh), "watchdog": self.watchdog}
            errs = judge(self.role, prev, obs[-1], ctx)
        else:
            errs = [(f"C06:{self.role}:replay-incomplete:{rt.verdict}", f"history {nh} ended in {rt.verdict} after {len(obs)} events")]
        return {"obs": obs, "verdict": rt.verdict, "history": nh}, errs

    def canon(self, st):
        obs = st["obs"]
        if not obs:
            return ("init",)
        o = obs[-1]
        starts = sum(1 for e in st["history"] if e[0] == "start")
        last_kind = st["history"][-1][0] if st["history"] and st["history"][-1][0] in ("start",) else ""
        return (o["state"], o["conn"], o["transport_released"], o["sock_closed"], o["sock_registered"],
                tuple(n.rstrip("0123456789") for n in o["live"]), len(o["crashed"]), o["assoc_lock"], o["pp_lock"], o["tr_lock"],
                o["state_is_active"], o["stop_threads"], o["queues"], o["psm_running"], o.get("pending"), o.get("stop_req"), min(starts, 2), last_kind)


def configs(tier):
    if tier == "quick":
        return [("client", (node.S6A,), 12, 30), ("server", (node.S6A,), 12, 30), ("server", (node.S6A,), 5, 3),
                ("client", (node.S6A,), 5, 3)]
    return [("client", (node.S6A,), 14, 30), ("server", (node.S6A,), 14, 30), ("client", (), 10, 30),
            ("server", (node.S6A, node.GX), 10, 30), ("client", (node.S6A, node.GX), 10, 30), ("server", (), 10, 30),
            ("server", (node.S6A,), 7, 3), ("client", (node.S6A,), 7, 3)]


def run(report, tier, seed):
    return run_for(report, tier, seed, "C06")


def run_for(report, tier, seed, prop):
    states = transitions = 0
    for role, apps, depth, wd in configs(tier):
        model = FsmModel(role, apps, watchdog=wd)
        sub = core.Report(prop)
        res = hist.bfs_parallel(model, sub, core.jobs(), max_depth=depth, chunk=2,
                                budget_s=200 if tier == "quick" else 2400)
        states += res["states"]
        transitions += res["transitions"]
        for sig, v in sub.violations.items():
            if sig.startswith(prop + ":"):
                w = dict(v.witness, role=role, apps=list(apps), watchdog=wd)
                report.violation(sig, v.what, w)
                report.violations[sig].count += v.count - 1
        report.caps += [c for c in sub.caps if "depth bound" not in c and c not in report.caps]
        if any("depth bound" not in c for c in sub.caps):
            report.exhaustive = False
        report.count(f"states_{role}_{len(apps)}apps_wd{wd}", res["states"])
        report.count(f"transitions_{role}_{len(apps)}apps_wd{wd}", res["transitions"])
        report.count(f"depth_{role}_{len(apps)}apps_wd{wd}", res["max_depth"])
        report.note(f"{role}/{len(apps)} apps/watchdog {wd}: depth bound {depth}, closure reached={res['closed']}")
    report.add(evaluations=transitions, distinct=states)
    report.sample({"role": "client", "history": [["start"], ["ack"], ["msg", "cea-echo"], ["msg", "dwr"], ["close"], ["msg", "dpa"]]})
    report.sample({"role": "server", "history": [["start"], ["connect"], ["msg", "cer"], ["msg", "dpr"]]})
    return {"_level_keys": {"states": states, "transitions": transitions, "traces_validated_against_impl": transitions}}


def replay(w):
    role, apps = w.get("role", "client"), tuple(w.get("apps", [node.S6A]))
    history = [tuple(e) for e in w["history"]]
    rt, obs = run_history(role, apps, history, w.get("watchdog", 30))
    bad = False
    prev = None
    for i, o in enumerate(obs):
        ctx = {"started": any(e[0] == "start" for e in history[:i + 1]), "watchdog": w.get("watchdog", 30)}
        errs = judge(role, prev, o, ctx)
        print(f"[{i}] {o['event']} -> state={o['state']} conn={o['conn']} emitted={[(m['code'], m['request']) for m in o['emitted']]} "
              f"delivered={o['delivered']} live={o['live']} crashed={o['crashed']} raised={o.get('raised')}")
        for sig, text in errs:
            print("     ", sig, "|", text)
            bad = True
        prev = o
    print("verdict:", rt.verdict)
    return bad
