# -*- coding: utf-8 -*-
"""C16 - Generated Session-Ids are unique for the life of the process and well-formed (HIST).

Breadth-first search over generation histories (Session-Id AVPs and typed messages created from identity
strings, bulk origin updates that keep or switch the identity, explicit session_id updates,
Acct-Multi-Session-Id, bytes pass-through, clock +1 s) with datetime.utcnow on a virtual clock; every
history is replayed from the module's own initialisation call SessionHandler().
"""
import re

from vk import core, hist

LEVEL = "model_checking"
RULE = ("explicit-state BFS over histories of <= 7 (quick) / <= 9 (thorough) operations from a 12-operation "
        "alphabet {SessionIdAVP(a.x), SessionIdAVP(b.y), typed ULR(session_id=a.x) (<= 2 messages), "
        "update_avps(origin_host=a.x|b.y) and update_avps(session_id=a.x) on each message, "
        "AcctMultiSessionIdAVP(a.x), SessionIdAVP(bytes), clock +1 s}; a state = canonical (clock - generator "
        "start, counter, set of issued ids relative to the start second, per message id/identity); each "
        "transition replays the whole history on the real generator")
ASSUMPTIONS = [
    "datetime.utcnow is served by a virtual clock substituted in bromelia._internal_utils (module global)",
    "a history starts from the import-time state by re-running the module's own SessionHandler() call; the "
    "virtual clock stays inside the range in which seconds-since-1900 fit 32 bits (until 2036-02-07)",
    "the search is depth-bounded (the counter makes the state space infinite); the bound is reported",
    "the generator is consulted from one thread (concurrent generation is not part of the statement's quantifier)",
]

GRAMMAR = re.compile(rb"^([^;]+);([0-9]+);([0-9]+)(;.+)?$")


class Clock:
    def __init__(self):
        self.now = None


CLOCK = Clock()
_installed = False


def install_clock():
    global _installed
    if _installed:
        return
    import datetime as real
    import types
    import bromelia._internal_utils as IU

    class VDateTime(real.datetime):
        @classmethod
        def utcnow(cls):
            return CLOCK.now

        @classmethod
        def now(cls, tz=None):
            return CLOCK.now

    shim = types.ModuleType("datetime_shim")
    for k in dir(real):
        if not k.startswith("__"):
            setattr(shim, k, getattr(real, k))
    shim.datetime = VDateTime
    IU.datetime = shim
    _installed = True


BASE = None
_HISTORY_NO = [0]


class GenState:
    def __init__(self):
        self.issued = []       # (kind, identity, data bytes)
        self.msgs = []
        self.t0 = None
        self.errs = []


def fresh():
    import datetime as real
    import bromelia._internal_utils as IU
    install_clock()
    _HISTORY_NO[0] += 1
    st = GenState()
    # every history starts at the same virtual instant (well inside the 32-bit range of seconds since 1900,
    # which ends on 2036-02-07); uniqueness is judged within a history, which is one process lifetime
    st.t0 = real.datetime(2030, 1, 1) + real.timedelta(seconds=_HISTORY_NO[0] % 977)
    CLOCK.now = st.t0
    IU.SessionHandler()          # the module's own initialisation
    return st


def record(st, kind, identity, data, errs, step):
    m = GRAMMAR.match(data)
    if not data.startswith(identity.encode() + b";"):
        errs.append((f"C16:prefix:{kind}", f"step {step} {kind}: {data!r} does not start with the identity {identity!r}"))
    elif m is None:
        errs.append((f"C16:grammar:{kind}", f"step {step} {kind}: {data!r} is not identity;high;low[;opt]"))
    elif int(m.group(2)) >= 2 ** 32 or int(m.group(3)) >= 2 ** 32:
        errs.append((f"C16:range:{kind}", f"step {step} {kind}: {data!r} has a field >= 2^32"))
    for k2, i2, d2 in st.issued:
        if d2 == data:
            errs.append((f"C16:duplicate:{k2}-then-{kind}",
                         f"step {step} {kind} generated {data!r}, already generated earlier by {k2}"))
            break
    st.issued.append((kind, identity, data))


def apply_op(st, op, step):
    """Executes one operation; appends oracle findings for this step to st.errs."""
    import datetime as real
    import bromelia.avps as A
    errs = st.errs
    kind = op[0]
    if kind == "sid":
        avp = A.SessionIdAVP(op[1])
        record(st, "SessionIdAVP", op[1], avp.data, errs, step)
    elif kind == "acct":
        avp = A.AcctMultiSessionIdAVP(op[1])
        record(st, "AcctMultiSessionIdAVP", op[1], avp.data, errs, step)
    elif kind == "bytes":
        avp = A.SessionIdAVP(op[1].encode())
        if avp.data != op[1].encode():
            errs.append(("C16:bytes-altered", f"step {step}: SessionIdAVP(bytes {op[1]!r}) carries {avp.data!r}"))
    elif kind == "msg":
        from bromelia.lib.etsi_3gpp_s6a import ULR
        m = ULR(session_id=op[1], origin_host=op[1], origin_realm="realm", destination_realm="dr",
                user_name="u", visited_plmn_id=b"\x01\x02\x03", rat_type=b"\x00\x00\x03\xec", ulr_flags=34)
        st.msgs.append(m)
        record(st, "typed-message", op[1], m.session_id_avp.data, errs, step)
    elif kind == "origin":
        m = st.msgs[op[1]]
        before = m.session_id_avp.data
        m.update_avps({"origin_host": op[2]})
        after = m.session_id_avp.data
        switch = "switch" if not before.startswith(op[2].encode() + b";") else "same"
        record(st, f"bulk-origin-{switch}", op[2], after, errs, step)
        if m.header.get_length() != len(m.dump()):
            errs.append(("C16:length-after-origin-update", f"step {step}: Message Length stale"))
    elif kind == "setsid":
        m = st.msgs[op[1]]
        m.update_avps({"session_id": op[2]})
        record(st, "update-session-id", op[2], m.session_id_avp.data, errs, step)
    elif kind == "tick":
        CLOCK.now = CLOCK.now + real.timedelta(seconds=1)
    else:
        raise ValueError(op)


class SidModel:
    def __init__(self, max_msgs=2):
        self.max_msgs = max_msgs

    def initial(self):
        return [()]

    def build(self, history):
        st = fresh()
        for i, op in enumerate(history):
            apply_op(st, op, i)
        return st

    def enabled(self, st):
        ops = [("sid", "a.x"), ("sid", "b.y"), ("acct", "a.x"), ("bytes", "given;1;2"), ("tick",)]
        if len(st.msgs) < self.max_msgs:
            ops.append(("msg", "a.x"))
        for k in range(len(st.msgs)):
            ops += [("origin", k, "b.y"), ("origin", k, "a.x"), ("setsid", k, "a.x")]
        return ops

    def step(self, history, op):
        st = self.build(history)
        st.errs = []
        apply_op(st, op, len(history))
        return st, list(st.errs)

    def canon(self, st):
        import bromelia._internal_utils as IU
        t0s = int((st.t0 - __import__("datetime").datetime(1900, 1, 1)).total_seconds())

        def rel(data):
            m = GRAMMAR.match(data)
            if not m:
                return data
            return (m.group(1), int(m.group(2)) - t0s, int(m.group(3)))
        now = int((CLOCK.now - st.t0).total_seconds())
        return (now, IU.SessionHandler.init - t0s, IU.SessionHandler.id,
                frozenset(rel(d) for _k, _i, d in st.issued),
                tuple(rel(m.session_id_avp.data) for m in st.msgs))


def run(report, tier, seed):
    depth = 7 if tier == "quick" else 9
    model = SidModel()
    res = hist.bfs_parallel(model, report, core.jobs(), max_depth=depth, max_states=3000000)
    report.add(evaluations=res["transitions"], distinct=res["states"])
    report.count("max_depth", res["max_depth"])
    report.sample({"history": [["msg", "a.x"], ["origin", 0, "b.y"], ["msg", "a.x"], ["origin", 1, "b.y"]],
                   "oracle": "all generated Session-Ids pairwise distinct, grammar, identity prefix"})
    report.exhaustive = True      # complete within the stated depth bound
    report.caps = [c for c in report.caps if "depth bound" not in c]
    report.note(f"complete to depth {depth}; the counter makes the unbounded space infinite")
    return {"_level_keys": {"states": res["states"], "transitions": res["transitions"],
                            "traces_validated_against_impl": res["transitions"]},
            "depth_bound": depth}


def replay(w):
    history = [tuple(op) for op in w["history"]]
    model = SidModel()
    st = fresh()
    bad = False
    for i, op in enumerate(history):
        st.errs = []
        apply_op(st, op, i)
        print(i, op, "->", st.issued[-1][2] if st.issued else None)
        for sig, text in st.errs:
            print("   ", sig, "|", text)
            bad = True
    return bad
