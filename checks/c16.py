# -*- coding: utf-8 -*-
"""C16 - Generated Session-Ids are unique for the life of the process and well-formed (HIST).

Breadth-first search over generation histories (Session-Id AVPs and typed messages created from identity
strings, bulk origin updates that keep or switch the identity, explicit session_id updates,
Acct-Multi-Session-Id, bytes pass-through, clock +1 s) with datetime.utcnow on a virtual clock; every
history is replayed from the module's own initialisation call SessionHandler().
"""
import re

from vk import core, hist

LEVEL = "model_checking"
RULE = ("explicit-state BFS over histories of <= 7 (quick) / <= 9 (thorough) operations from a 14-operation "
        "alphabet {SessionIdAVP(a.x), SessionIdAVP(b.y), typed ULR(session_id=a.x) (<= 2 messages), "
        "update_avps(origin_host=a.x|b.y|bytes b.y) and update_avps(session_id=a.x) on each message, "
        "AcctMultiSessionIdAVP(a.x), SessionIdAVP(bytes), clock +1 s}; a state = canonical (clock - generator "
        "start, counter, set of issued ids relative to the start second, per message id/identity); each "
        "transition replays the whole history on the real generator; plus stateless schedule exploration of 2 "
        "(thorough 3) threads generating concurrently {SessionIdAVP(a.x), SessionIdAVP(b.y), typed ULR, bulk "
        "origin update of an earlier message}, every schedule with <= 2 deviations (thorough 3 on two AVPs)")
ASSUMPTIONS = [
    "datetime.utcnow is served by a virtual clock substituted in bromelia._internal_utils (module global)",
    "a history starts from the import-time state by re-running the module's own SessionHandler() call; the "
    "virtual clock stays inside the range in which seconds-since-1900 fit 32 bits (until 2036-02-07)",
    "the search is depth-bounded (the counter makes the state space infinite); the bound is reported",
    "the histories are sequential; generation from two or three threads at once is explored separately by the "
    "schedule explorer (every schedule with <= 2 deviations, line-level points on the generator's counter)",
]

GRAMMAR = re.compile(rb"^([^;]+);([0-9]+);([0-9]+)(;.+)?$")


class Clock:
    def __init__(self):
        self.now = None


CLOCK = Clock()
_installed = False


def install_clock():
    global _installed
    if _installed:
        return
    import datetime as real
    import types
    import bromelia._internal_utils as IU

    class VDateTime(real.datetime):
        @classmethod
        def utcnow(cls):
            return CLOCK.now

        @classmethod
        def now(cls, tz=None):
            return CLOCK.now

    shim = types.ModuleType("datetime_shim")
    for k in dir(real):
        if not k.startswith("__"):
            setattr(shim, k, getattr(real, k))
    shim.datetime = VDateTime
    IU.datetime = shim
    _installed = True


BASE = None
_HISTORY_NO = [0]


class GenState:
    def __init__(self):
        self.issued = []       # (kind, identity, data bytes)
        self.msgs = []
        self.t0 = None
        self.errs = []


def fresh():
    import datetime as real
    import bromelia._internal_utils as IU
    install_clock()
    _HISTORY_NO[0] += 1
    st = GenState()
    # every history starts at the same virtual instant (well inside the 32-bit range of seconds since 1900,
    # which ends on 2036-02-07); uniqueness is judged within a history, which is one process lifetime
    st.t0 = real.datetime(2030, 1, 1) + real.timedelta(seconds=_HISTORY_NO[0] % 977)
    CLOCK.now = st.t0
    IU.SessionHandler()          # the module's own initialisation
    return st


def record(st, kind, identity, data, errs, step):
    m = GRAMMAR.match(data)
    if not data.startswith(identity.encode() + b";"):
        errs.append((f"C16:prefix:{kind}", f"step {step} {kind}: {data!r} does not start with the identity {identity!r}"))
    elif m is None:
        errs.append((f"C16:grammar:{kind}", f"step {step} {kind}: {data!r} is not identity;high;low[;opt]"))
    elif int(m.group(2)) >= 2 ** 32 or int(m.group(3)) >= 2 ** 32:
        errs.append((f"C16:range:{kind}", f"step {step} {kind}: {data!r} has a field >= 2^32"))
    for k2, i2, d2 in st.issued:
        if d2 == data:
            errs.append((f"C16:duplicate:{k2}-then-{kind}",
                         f"step {step} {kind} generated {data!r}, already generated earlier by {k2}"))
            break
    st.issued.append((kind, identity, data))


def apply_op(st, op, step):
    """Executes one operation; appends oracle findings for this step to st.errs."""
    import datetime as real
    import bromelia.avps as A
    errs = st.errs
    kind = op[0]
    if kind == "sid":
        avp = A.SessionIdAVP(op[1])
        record(st, "SessionIdAVP", op[1], avp.data, errs, step)
    elif kind == "acct":
        avp = A.AcctMultiSessionIdAVP(op[1])
        record(st, "AcctMultiSessionIdAVP", op[1], avp.data, errs, step)
    elif kind == "bytes":
        avp = A.SessionIdAVP(op[1].encode())
        if avp.data != op[1].encode():
            errs.append(("C16:bytes-altered", f"step {step}: SessionIdAVP(bytes {op[1]!r}) carries {avp.data!r}"))
    elif kind == "msg":
        from bromelia.lib.etsi_3gpp_s6a import ULR
        m = ULR(session_id=op[1], origin_host=op[1], origin_realm="realm", destination_realm="dr",
                user_name="u", visited_plmn_id=b"\x01\x02\x03", rat_type=b"\x00\x00\x03\xec", ulr_flags=34)
        st.msgs.append(m)
        record(st, "typed-message", op[1], m.session_id_avp.data, errs, step)
    elif kind in ("origin", "origin-b"):
        m = st.msgs[op[1]]
        before = m.session_id_avp.data
        # "origin-b": the identity is given as bytes (e.g. relayed from another message's Origin-Host data)
        m.update_avps({"origin_host": op[2].encode() if kind == "origin-b" else op[2]})
        after = m.session_id_avp.data
        switch = "switch" if not before.startswith(op[2].encode() + b";") else "same"
        record(st, f"bulk-origin-{switch}", op[2], after, errs, step)
        if m.header.get_length() != len(m.dump()):
            errs.append(("C16:length-after-origin-update", f"step {step}: Message Length stale"))
    elif kind == "setsid":
        m = st.msgs[op[1]]
        m.update_avps({"session_id": op[2]})
        record(st, "update-session-id", op[2], m.session_id_avp.data, errs, step)
    elif kind == "tick":
        CLOCK.now = CLOCK.now + real.timedelta(seconds=1)
    else:
        raise ValueError(op)


BYTES_VALUES = [b"given;1;2", b"given;1;2;opt", b"opaque-id-without-delimiter", b"0a81f1eb-5d03-44c2-9b58", b"a.x", b"x", b"a;b",
                b";", b";;", b"a.x;", b"host.example;4294967295;4294967295", b"\xc3\xa9;1;2", b"a b;1;2", b"1", b"0"]


def bytes_passthrough(report):
    """'A Session-Id supplied as bytes is carried unchanged': every value x every way of supplying one."""
    import bromelia.avps as A
    from bromelia.lib.etsi_3gpp_s6a import ULR, ULA
    from bromelia.base import DiameterMessage
    n = 0

    def ulr(sid):
        return ULR(session_id=sid, origin_host="a.x", origin_realm="realm", destination_realm="dr",
                   user_name="u", visited_plmn_id=b"\x01\x02\x03", rat_type=b"\x00\x00\x03\xec", ulr_flags=34)
    ways = {
        "SessionIdAVP": lambda v: A.SessionIdAVP(v).data,
        "AcctMultiSessionIdAVP": lambda v: A.AcctMultiSessionIdAVP(v).data,
        "typed-request": lambda v: ulr(v).session_id_avp.data,
        "typed-answer": lambda v: ULA(session_id=v, origin_host="a.x", origin_realm="realm", result_code=b"\x00\x00\x07\xd1").session_id_avp.data,
        "update-session-id": lambda v: _updated(ulr(b"seed;1;2"), v),
        "avp-then-dump-load": lambda v: DiameterMessage.load(ulr(v).dump())[0].session_id_avp.data,
    }
    for v in BYTES_VALUES:
        for wname, fn in ways.items():
            n += 1
            try:
                got = fn(v)
            except BaseException as e:  # noqa
                report.violation(f"C16:bytes-raises:{wname}", f"{wname}({v!r}) raised {type(e).__name__}: {e}",
                                 {"bytes_way": wname, "value": v.hex()})
                continue
            if got != v:
                report.violation(f"C16:bytes-altered:{wname}", f"{wname}({v!r}) carries {got!r}",
                                 {"bytes_way": wname, "value": v.hex()})
    report.add(evaluations=n, distinct=n)
    return n


def _updated(m, v):
    m.update_avps({"session_id": v})
    return m.session_id_avp.data


class SidModel:
    def __init__(self, max_msgs=2):
        self.max_msgs = max_msgs

    def initial(self):
        return [()]

    def build(self, history):
        st = fresh()
        for i, op in enumerate(history):
            apply_op(st, op, i)
        return st

    def enabled(self, st):
        ops = [("sid", "a.x"), ("sid", "b.y"), ("acct", "a.x"), ("bytes", "given;1;2"), ("tick",)]
        if len(st.msgs) < self.max_msgs:
            ops.append(("msg", "a.x"))
        for k in range(len(st.msgs)):
            ops += [("origin", k, "b.y"), ("origin", k, "a.x"), ("setsid", k, "a.x"), ("origin-b", k, "b.y")]
        return ops

    def step(self, history, op):
        st = self.build(history)
        st.errs = []
        apply_op(st, op, len(history))
        return st, list(st.errs)

    def canon(self, st):
        import bromelia._internal_utils as IU
        t0s = int((st.t0 - __import__("datetime").datetime(1900, 1, 1)).total_seconds())

        def rel(data):
            m = GRAMMAR.match(data)
            if not m:
                return data
            return (m.group(1), int(m.group(2)) - t0s, int(m.group(3)))
        now = int((CLOCK.now - st.t0).total_seconds())
        return (now, IU.SessionHandler.init - t0s, IU.SessionHandler.id,
                frozenset(rel(d) for _k, _i, d in st.issued),
                tuple(rel(m.session_id_avp.data) for m in st.msgs))


# ------------------------------------------------------------------------------------------------------------
# concurrent generation (schedule explorer): "distinct from every other Session-Id generated in the process
# lifetime" also covers ids generated by two threads at once
# ------------------------------------------------------------------------------------------------------------

def _concurrent_scenario():
    from vk.vrt import explore, shims

    class SidCreators(explore.Scenario):
        name = "concurrent-session-ids"
        horizon = 30.0
        max_points = 5000
        explore_from_start = True
        shared = frozenset({"id", "init"})
        auto_shared = True

        def driver(self, rt):
            import bromelia._internal_utils as IU
            import bromelia.avps as A
            from bromelia.lib.etsi_3gpp_s6a import ULR
            if self.params.get("first"):
                # the very first Session-Ids of the process: the generator is in the state the import left it in
                for k, v in IMPORT_STATE.items():
                    setattr(IU.SessionHandler, k, v)
            else:
                IU.SessionHandler()          # the module's own initialisation, on the virtual clock
            kinds = self.params["kinds"]
            out = {}
            rt.observations["out"] = out
            pre = {}
            for i, kind in enumerate(kinds):
                if kind == "origin":     # a message created earlier, re-originated concurrently
                    pre[i] = ULR(session_id="a.x", origin_host="a.x", origin_realm="realm", destination_realm="dr",
                                 user_name="u", visited_plmn_id=b"\x01\x02\x03", rat_type=b"\x00\x00\x03\xec", ulr_flags=34)
                    out[f"pre{i}"] = pre[i].session_id_avp.data.decode()

            def creator(i):
                kind = kinds[i]
                if kind == "avp":
                    out[i] = A.SessionIdAVP("a.x").data.decode()
                elif kind == "avp-b":
                    out[i] = A.SessionIdAVP("b.y").data.decode()
                elif kind == "msg":
                    m = ULR(session_id="a.x", origin_host="a.x", origin_realm="realm", destination_realm="dr",
                            user_name="u", visited_plmn_id=b"\x01\x02\x03", rat_type=b"\x00\x00\x03\xec", ulr_flags=34)
                    out[i] = m.session_id_avp.data.decode()
                elif kind == "origin":
                    pre[i].update_avps({"origin_host": "b.y"})
                    out[i] = pre[i].session_id_avp.data.decode()
            ts = [shims.Thread(target=creator, args=(i,), name=f"creator{i}") for i in range(len(kinds))]
            for t in ts:
                t.start()
            for t in ts:
                t.join()
            rt.stop()

        def oracle(self, rt):
            out = rt.observations.get("out", {})
            kinds = self.params["kinds"]
            if rt.verdict != "done" or any(i not in out for i in range(len(kinds))):
                return [(f"C16:concurrent:{rt.verdict}", f"creators did not finish: {rt.verdict}, {out}")]
            errs = []
            vals = list(out.values())
            # ids are compared on (high, low): the identity is only a prefix, the pair must not repeat either
            pairs = [tuple(v.split(";")[1:3]) for v in vals]
            if len(set(vals)) != len(vals):
                errs.append((f"C16:concurrent:duplicate:{'+'.join(kinds)}{':first' if self.params.get('first') else ''}", f"Session-Ids generated concurrently coincide: {out}"))
            for i, v in out.items():
                if GRAMMAR.match(v.encode()) is None:
                    errs.append((f"C16:concurrent:grammar", f"{v!r} is not identity;high;low[;opt]"))
            return errs

        def outcome(self, rt):
            out = rt.observations.get("out", {})
            return (rt.verdict, len(set(out.values())) == len(out))
    return SidCreators


IMPORT_STATE = {}


def snapshot_import_state():
    """Class-level state of the generator as the import of the library left it (taken before this process has
    generated anything)."""
    import bromelia._internal_utils as IU
    if not IMPORT_STATE:
        for k, v in vars(IU.SessionHandler).items():
            if not k.startswith("__") and (v is None or isinstance(v, (int, float, str, bytes))):
                IMPORT_STATE[k] = v


CONCURRENT = [(["avp", "avp"], 2), (["avp", "msg"], 2), (["avp", "origin"], 2), (["avp", "avp-b"], 1), (["avp", "avp", "first"], 2),
              (["avp", "msg", "first"], 1)]
CONCURRENT_THOROUGH = [(["avp", "avp", "avp"], 2), (["msg", "origin"], 2), (["origin", "origin"], 2), (["avp", "avp"], 3)]


def _sched_shard(rep, arg):
    from vk.vrt import explore
    params, bound, k, n = arg
    snapshot_import_state()
    scn = _concurrent_scenario()(**params)
    stats = {"executions": 0, "points": 0}
    if k == 0:
        base = explore.selfcheck_determinism(scn)
        explore.run_one(scn, (), rep, stats)
        rep.sample({"scenario": scn.name, "params": params, "deviation_bound": bound, "points": len(base.points)})
    else:
        base = explore.execute(scn)
    firsts = explore.successors(base, ())
    explore.explore_subtree(scn, firsts[k::n], bound, rep, stats)
    rep.add(evaluations=stats["executions"], distinct=stats["executions"], concurrent_executions=stats["executions"])


def run(report, tier, seed):
    snapshot_import_state()      # before this process generates anything (the forked shards inherit it)
    depth = 7 if tier == "quick" else 9
    model = SidModel()
    res = hist.bfs_parallel(model, report, core.jobs(), max_depth=depth, max_states=3000000)
    bytes_passthrough(report)
    conc = CONCURRENT + (CONCURRENT_THOROUGH if tier == "thorough" else [])
    shards = []
    for kinds, bound in conc:
        n = 4 if bound <= 2 else 16
        first = kinds[-1] == "first"
        kk = kinds[:-1] if first else kinds
        shards += [(dict(kinds=kk, first=True) if first else dict(kinds=kk), bound, k, n) for k in range(n)]
    core.run_shards(report, _sched_shard, shards, fresh_process=True)
    report.add(evaluations=res["transitions"], distinct=res["states"])
    report.count("max_depth", res["max_depth"])
    report.sample({"history": [["msg", "a.x"], ["origin", 0, "b.y"], ["msg", "a.x"], ["origin", 1, "b.y"]],
                   "oracle": "all generated Session-Ids pairwise distinct, grammar, identity prefix"})
    report.exhaustive = True      # complete within the stated depth bound
    report.caps = [c for c in report.caps if "depth bound" not in c]
    report.note(f"complete to depth {depth}; the counter makes the unbounded space infinite")
    return {"_level_keys": {"states": res["states"], "transitions": res["transitions"],
                            "traces_validated_against_impl": res["transitions"]},
            "depth_bound": depth}


def replay(w):
    if "bytes_way" in w:
        rep = core.Report("C16")
        global BYTES_VALUES
        BYTES_VALUES = [bytes.fromhex(w["value"])]
        bytes_passthrough(rep)
        for sig in rep.violations:
            print(sig)
        return bool(rep.violations)
    if "scenario" in w:
        from vk.vrt import explore
        snapshot_import_state()
        scn = _concurrent_scenario()(**w["params"])
        rt = explore.execute(scn, {int(i): int(a) for i, a in w["choices"]})
        errs = scn.oracle(rt)
        for p in rt.points:
            print(f"  {p.thread:10s} {p.kind:12s} {p.label:28s} chosen={p.chosen} of {p.cands}")
        print(rt.observations.get("out"))
        for sig, text in errs:
            print(sig, "|", text)
        return bool(errs)
    history = [tuple(op) for op in w["history"]]
    model = SidModel()
    st = fresh()
    bad = False
    for i, op in enumerate(history):
        st.errs = []
        apply_op(st, op, i)
        print(i, op, "->", st.issued[-1][2] if st.issued else None)
        for sig, text in st.errs:
            print("   ", sig, "|", text)
            bad = True
    return bad
