# -*- coding: utf-8 -*-
"""C14 - A waiting sender gets its own answer, matched by Hop-by-Hop id, and always wakes (SCHED).

Real Bromelia.send_message, real in-process Worker (send_handler runs unchanged against a stand-in
connection object), real Bromelia.main loop and the answer-dispatch threads it creates, k concurrent
callers, a scripted peer that answers in every arrival order; all threads run on the virtual runtime and the
schedule explorer enumerates every schedule with <= d deviations from the fair default.
"""
import itertools

from vk import core, inproc
from vk.vrt import explore, shims

LEVEL = "model_checking"
RULE = ("stateless schedule exploration of the real threads {k callers, worker send_handler, Bromelia.main, "
        "answer-dispatch threads, scripted peer}: every schedule with <= d deviations from the deterministic "
        "fair scheduler (scheduling points = every lock/event/queue/barrier/sleep operation and every source "
        "line that touches a shared attribute), for k = 1..2 callers (thorough 3; d = 1 quick, d = 2 thorough for k = 1 and the eager k = 2 scenarios), every permutation of answer "
        "arrival, with/without an unsolicited answer, peer answering eagerly or lazily; one caller that sends the same "
        "request again once answered (peer quick / slow / sending the first answer twice); two connections (two workers) "
        "with the same Hop-by-Hop identifier outstanding on both, answers in either order; a connection that ends right "
        "behind its answer (these three families at d <= 1 in both tiers); a state = one executed schedule")
ASSUMPTIONS = [
    "Worker runs in-process with a stand-in manager whose Event/Queue/Lock are virtual-runtime primitives; "
    "the connection layer below the worker is a stub that hands each request to the scripted peer",
    "one CPython source line = one atomic step at line-level points (synchronisation operations are points too)",
    "liveness = every caller has returned when the system goes quiescent under the fair continuation after "
    "the last deviation",
]

S6A = 16777251


class VrtManager:
    def Event(self):
        return shims.Event()

    def Queue(self):
        return shims.Queue()

    def Lock(self):
        return shims.Lock()


class StubConnection:
    """Stands for the Diameter object inside the worker: forwards outgoing messages to the peer."""

    def __init__(self, config, outbox):
        self.config = config
        self.outbox = outbox

    def send_message(self, msg):
        self.outbox.put(msg)

    def send_messages(self, msgs):
        for m in msgs:
            self.outbox.put(m)


def make_request(i):
    from bromelia.base import DiameterRequest
    import bromelia.avps as A
    r = DiameterRequest(command_code=316, application_id=S6A,
                        avps=[A.SessionIdAVP(f"c{i};1;{i}".encode()), A.OriginHostAVP("local-s6a.example"),
                              A.OriginRealmAVP("realm-s6a.local")])
    r.header.hop_by_hop = 0x0a000000 + i
    r.header.end_to_end = 0x0b000000 + i
    return r


def make_answer(hbh, tag):
    from bromelia.base import DiameterAnswer
    import bromelia.avps as A
    a = DiameterAnswer(command_code=316, application_id=S6A,
                       avps=[A.SessionIdAVP(f"ans;{tag};0".encode()), A.ResultCodeAVP(2001)])
    a.header.hop_by_hop = hbh
    a.header.end_to_end = 0x0c000000 + tag
    return a


class WaitingSender(explore.Scenario):
    name = "waiting-sender"
    horizon = 60.0
    max_points = 20000
    idle_window = 8.0
    auto_shared = True
    shared = frozenset({"pending_answers", "msg", "request_id", "answer_id", "associations", "recv_queues",
                        "testing_answer"})

    def driver(self, rt):
        import bromelia.bromelia as BB
        k = self.params["k"]
        order = self.params["order"]              # permutation of range(k): arrival order of the answers
        unsolicited = self.params.get("unsolicited", False)
        eager = self.params.get("eager", True)
        BB.BROMELIA_TICKER = 0.25
        app, workers = inproc.make_bromelia(["s6a"], manager=VrtManager(), zero_timers=False)
        BB.SEND_THRESHOLD_TICKER = 0.05
        BB.PROCESS_TIMER = 0.001
        worker = workers["s6a"]
        outbox = shims.Queue()
        worker.app = StubConnection(worker.app.config, outbox)
        results = {}
        rt.observations["results"] = results
        rt.observations["k"] = k

        stagger = self.params.get("stagger", 0)
        think = self.params.get("think", 0)
        tm = shims.make_time()

        resend = self.params.get("resend", 0)

        def caller(i):
            if stagger and i:
                tm.sleep(stagger * i)        # callers arriving one after the other, not all at once
            req = make_request(i)
            ans = app.send_message(req)
            results[i] = (ans.header.get_hop_by_hop(), id(ans)) if ans is not None else None
            for r in range(resend):
                # the same request once more, as soon as its answer is in (a retry: the Hop-by-Hop identifier is
                # free again, the exchange it belonged to is over)
                ans = app.send_message(req)
                results[(i, r + 1)] = (ans.header.get_hop_by_hop(), id(ans)) if ans is not None else None

        def peer():
            seen = {}
            delivered = 0
            if unsolicited:
                worker.notify_incoming_message(make_answer(0x0a0000ff, 99))
            if resend:
                # one caller, answered each time its request shows up
                for r in range(resend + 1):
                    req = outbox.get()
                    if think and r:
                        tm.sleep(think)      # the peer takes its time over the repeated request
                    worker.notify_incoming_message(make_answer(req.header.get_hop_by_hop(), 50 + r))
                    if self.params.get("duplicate") and r == 0:
                        # the first answer arrives twice (a retransmission)
                        worker.notify_incoming_message(make_answer(req.header.get_hop_by_hop(), 60))
                return
            while delivered < k:
                if eager:
                    req = outbox.get()
                    seen[req.header.get_hop_by_hop() - 0x0a000000] = req
                    if think:
                        tm.sleep(think)      # the peer takes its time to answer
                else:
                    while len(seen) < k:
                        req = outbox.get()
                        seen[req.header.get_hop_by_hop() - 0x0a000000] = req
                # answer, in the prescribed arrival order, whatever can already be answered
                progressed = True
                while progressed and delivered < k:
                    progressed = False
                    nxt = order[delivered]
                    if nxt in seen:
                        worker.notify_incoming_message(make_answer(0x0a000000 + nxt, nxt))
                        delivered += 1
                        progressed = True

        T = shims.Thread
        T(target=worker.send_handler, name="send_handler").start()
        T(target=app.main, name="bromelia_main").start()
        T(target=peer, name="peer").start()
        rt.begin_exploration()
        callers = [T(target=caller, args=(i,), name=f"caller{i}") for i in range(k)]
        for c in callers:
            c.start()
        for c in callers:
            c.join()
        rt.stop()

    def oracle(self, rt):
        errs = []
        k = rt.observations.get("k", 0)
        results = rt.observations.get("results", {})
        shape = f"k{self.params['k']}" + (":resend" if self.params.get("resend") else "")
        if rt.verdict != "done":
            waiting = [f"{n}@{w}" for n, st, w, _l in rt.final_states if n.startswith("caller") and st != "done"]
            errs.append((f"C14:{rt.verdict}:{shape}:callers-never-woken",
                         f"execution ended in {rt.verdict}; callers still waiting: {waiting}; "
                         f"returned so far: {sorted(map(str, results))}"))
            return errs
        seen_objs = {}
        for key, r in results.items():
            if isinstance(key, tuple) and (r is None or r[0] != 0x0a000000 + key[0]):
                errs.append((f"C14:wrong-answer:{shape}:resend", f"caller {key[0]}'s repeated request was given {r}"))
        for i in range(k):
            r = results.get(i)
            if r is None:
                errs.append((f"C14:no-answer-returned:{shape}", f"caller {i} returned None"))
                continue
            hbh, oid = r
            if hbh != 0x0a000000 + i:
                errs.append((f"C14:wrong-answer:{shape}", f"caller {i} (Hop-by-Hop {0x0a000000 + i:#x}) was "
                                                          f"given the answer with Hop-by-Hop {hbh:#x}"))
            if oid in seen_objs:
                errs.append((f"C14:answer-delivered-twice:{shape}", f"callers {seen_objs[oid]} and {i} got the same object"))
            seen_objs[oid] = i
        for t in rt.crashed_threads():
            if t.library and t.name not in ("peer",):
                errs.append((f"C14:thread-crashed:{t.name.rstrip('0123456789')}:{type(t.exc).__name__}",
                             f"thread {t.name} died with {type(t.exc).__name__}: {t.exc}"))
        return errs

    def outcome(self, rt):
        return (rt.verdict, tuple(sorted((str(i), r[0] if r else None) for i, r in rt.observations.get("results", {}).items())))


GX = 16777238


class TwoConnections(explore.Scenario):
    """Two connections (two workers, one application each) in one orchestrator: one caller per connection, both
    requests carrying the *same* Hop-by-Hop identifier (identifiers are per connection), answers in either
    order. Optionally a connection ends right behind its answer (the answer has arrived: its caller wakes)."""
    name = "two-connections"
    horizon = 60.0
    max_points = 20000
    idle_window = 8.0
    auto_shared = True
    shared = WaitingSender.shared

    def driver(self, rt):
        import bromelia.bromelia as BB
        from bromelia.base import DiameterRequest, DiameterAnswer
        import bromelia.avps as A
        order = self.params["order"]
        nconn = self.params.get("connections", 2)
        end_after = self.params.get("end_after_answer", False)
        BB.BROMELIA_TICKER = 0.25
        names = ["s6a", "gx"][:nconn]
        appids = [S6A, GX][:nconn]
        app, workers = inproc.make_bromelia(names, manager=VrtManager(), zero_timers=False)
        BB.SEND_THRESHOLD_TICKER = 0.05
        BB.PROCESS_TIMER = 0.001
        outboxes = []
        for nme in names:
            ob = shims.Queue()
            workers[nme].app = StubConnection(workers[nme].app.config, ob)
            outboxes.append(ob)
        results = {}
        rt.observations["results"] = results
        HBH = 0x0a000000

        def caller(i):
            r = DiameterRequest(command_code=316 if i == 0 else 272, application_id=appids[i],
                                avps=[A.SessionIdAVP(f"c{i};1;{i}".encode()), A.OriginHostAVP(f"local-{names[i]}.example"),
                                      A.OriginRealmAVP(f"realm-{names[i]}.local")])
            r.header.hop_by_hop = HBH            # the same identifier on both connections
            r.header.end_to_end = 0x0b000000 + i
            ans = app.send_message(r)
            results[i] = (ans.header.get_hop_by_hop(), ans.header.get_application_id(), id(ans)) if ans is not None else None

        def peer():
            for i in range(nconn):
                outboxes[i].get()
            for i in order:
                a = DiameterAnswer(command_code=316 if i == 0 else 272, application_id=appids[i],
                                   avps=[A.SessionIdAVP(f"ans;{i};0".encode()), A.ResultCodeAVP(2001)])
                a.header.hop_by_hop = HBH
                a.header.end_to_end = 0x0c000000 + i
                workers[names[i]].notify_incoming_message(a)
                if end_after:
                    workers[names[i]].is_open.clear()     # the connection ends right behind its answer

        T = shims.Thread
        for nme in names:
            T(target=workers[nme].send_handler, name=f"send_handler_{nme}").start()
        T(target=app.main, name="bromelia_main").start()
        T(target=peer, name="peer").start()
        rt.begin_exploration()
        callers = [T(target=caller, args=(i,), name=f"caller{i}") for i in range(nconn)]
        for c in callers:
            c.start()
        for c in callers:
            c.join()
        rt.stop()

    def oracle(self, rt):
        errs = []
        results = rt.observations.get("results", {})
        nconn = self.params.get("connections", 2)
        shape = f"conn{nconn}" + (":end-after-answer" if self.params.get("end_after_answer") else "")
        if rt.verdict != "done":
            waiting = [f"{n}@{w}" for n, st, w, _l in rt.final_states if n.startswith("caller") and st != "done"]
            return [(f"C14:{rt.verdict}:{shape}:callers-never-woken",
                     f"execution ended in {rt.verdict}; callers still waiting: {waiting}; returned so far: {sorted(results)}")]
        objs = {}
        for i in range(nconn):
            r = results.get(i)
            if r is None:
                errs.append((f"C14:no-answer-returned:{shape}", f"caller {i} returned None although its answer arrived"))
                continue
            hbh, appid, oid = r
            if appid != [S6A, GX][i]:
                errs.append((f"C14:wrong-answer:{shape}", f"caller {i} on connection {i} was given the answer received on the "
                                                          f"other connection (Application-ID {appid})"))
            if oid in objs:
                errs.append((f"C14:answer-delivered-twice:{shape}", f"callers {objs[oid]} and {i} got the same object"))
            objs[oid] = i
        for t in rt.crashed_threads():
            if t.library and t.name not in ("peer",):
                errs.append((f"C14:thread-crashed:{t.name.rstrip('0123456789')}:{type(t.exc).__name__}",
                             f"thread {t.name} died with {type(t.exc).__name__}: {t.exc}"))
        return errs

    def outcome(self, rt):
        return (rt.verdict, tuple(sorted((i, r[:2] if r else None) for i, r in rt.observations.get("results", {}).items())))


SCENARIO_CLASSES = {"waiting-sender": WaitingSender, "two-connections": TwoConnections}


def scenarios(tier):
    yield WaitingSender(k=1, order=[0], eager=True, unsolicited=False, resend=1)
    yield WaitingSender(k=1, order=[0], eager=True, unsolicited=False, resend=1, think=5.0)
    yield WaitingSender(k=1, order=[0], eager=True, unsolicited=False, resend=1, think=5.0, duplicate=True)
    yield TwoConnections(order=[0, 1])
    yield TwoConnections(order=[1, 0])
    yield TwoConnections(order=[0], connections=1, end_after_answer=True)
    yield TwoConnections(order=[0, 1], end_after_answer=True)
    ks = (1, 2) if tier == "quick" else (1, 2, 3)
    for k in ks:
        for order in itertools.permutations(range(k)):
            for eager in (True, False):
                for unsolicited in ((False, True) if k <= 2 else (False,)):
                    yield WaitingSender(k=k, order=list(order), eager=eager, unsolicited=unsolicited)
            if k >= 2:
                # later callers arrive while earlier answers are being dispatched (eager peer only: a lazy
                # peer waits for all requests anyway)
                yield WaitingSender(k=k, order=list(order), eager=True, unsolicited=False, stagger=0.4)
                if list(order) == sorted(order):
                    # ... and a peer that needs a second per answer: a late caller registers while an earlier
                    # answer is still being handed over, and is answered after that hand-over has ended
                    yield WaitingSender(k=k, order=list(order), eager=True, unsolicited=False, stagger=2.5, think=1.0)


def bound_for(scn, tier):
    if scn.name == "two-connections" or scn.params.get("resend"):
        # the families added last (two connections, a connection ending behind its answer, a repeated request) are
        # explored at d <= 1 in both tiers (d = 2 costs ~400 000 executions per two-connection scenario)
        return 1
    k = scn.params["k"]
    if tier == "quick":
        return 1
    if k == 1:
        return 2
    if scn.params.get("stagger"):
        # staggered callers: one arrival order at d = 2, the rest at d = 1
        return 2 if (k == 2 and scn.params.get("stagger") == 0.4 and scn.params["order"] == sorted(scn.params["order"])) else 1
    if k == 2 and scn.params.get("eager") and not scn.params.get("unsolicited"):
        return 2
    return 1


def _shard(rep, arg):
    """One worker: re-runs the default schedule of its scenario (cheap) and explores every k-th first-level
    deviation to the bound. The parent process never runs a controlled execution (no fork after threads)."""
    cname, params, bound, k, n = arg
    scn = SCENARIO_CLASSES[cname](**params)
    stats = {"executions": 0, "points": 0}
    base = explore.selfcheck_determinism(scn) if k == 0 else explore.execute(scn)
    if k == 0:
        rt = explore.run_one(scn, (), rep, stats)
        rep.count(f"default_points_{cname}_k{params.get('k', params.get('connections', 2))}", len(rt.points))
        rep.sample({"scenario": scn.name, "params": params, "deviation_bound": bound,
                    "default_schedule_points": len(rt.points),
                    "first_points": rt.trace_brief(rt.explore_from or 0)[:5]})
    firsts = explore.successors(base, ()) if bound >= 1 else []
    explore.explore_subtree(scn, firsts[k::n], bound, rep, stats)
    rep.add(evaluations=stats["executions"], distinct=stats["executions"], executions=stats["executions"],
            scheduling_points=stats["points"])


def run(report, tier, seed):
    shards = []
    nscn = 0
    for scn in scenarios(tier):
        nscn += 1
        bound = bound_for(scn, tier)
        n = 4 if bound <= 1 else 16
        shards += [(scn.name, scn.params, bound, k, n) for k in range(n)]
    k = seed % max(1, len(shards))
    shards = shards[k:] + shards[:k]
    core.run_shards(report, _shard, shards, shard_timeout=3000)
    c = report.counters
    return {"_level_keys": {"states": c.get("executions", 0), "transitions": c.get("scheduling_points", 0),
                            "traces_validated_against_impl": c.get("executions", 0)},
            "scenarios": nscn}


def replay(w):
    scn = SCENARIO_CLASSES.get(w.get("scenario"), WaitingSender)(**w["params"])
    rt = explore.execute(scn, {int(i): int(a) for i, a in w["choices"]})
    errs = scn.oracle(rt)
    start = rt.explore_from or 0
    for p in rt.points[start:start + 400]:
        if p.chosen or p.kind in ("queue.put", "queue.get", "event.set", "event.wait", "lock.acquire", "line"):
            print(f"  {p.thread:14s} {p.kind:14s} {p.label:28s} cands={p.cands} chosen={p.chosen}")
    print("verdict:", rt.verdict, "results:", rt.observations.get("results"))
    for sig, text in errs:
        print(sig, "|", text)
    return bool(errs)
