# -*- coding: utf-8 -*-
"""C19 - A configuration is reflected faithfully or rejected, never silently altered (ENUM).

Dictionaries holding the 12 configuration keys with valid/invalid value alphabets per key (complete
pairwise product; thorough: complete 3-wise product of the invalid alphabets against valid fillers),
all ordered choices of the first two keys plus reversed order, one unknown extra key at every
position, through _convert_config_to_connection_obj and Diameter(config=...); YAML specs of 1..3 entries
through _convert_file_to_config and Bromelia(config_file=...).
"""
import copy
import itertools
import os
import tempfile

from vk import core

LEVEL = "exploration"
RULE = ("12-key dictionaries: each key has a valid alphabet (2-3 values) and an invalid alphabet; quick = "
        "every single key at every one of its values + complete pairwise product over keys; thorough adds "
        "the complete 3-wise product; key orders: all 132 ordered (first, second) choices + reversed order; "
        "one unknown extra key at each of the 13 positions; two entry points. YAML: all spec lists of "
        "length 1..3 (quick 1..2) over a 6-entry alphabet (mode case x transport given/omitted/mixed x 1-2 "
        "applications); every spec list of 0..2 (thorough 3) valid entries with one invalid entry {unknown application / "
        "vendor constant, unknown mode, unknown transport, malformed IP, non-integer timeout} at every position. A case is one dictionary or one YAML file; distinct by construction; non-trivial = "
        "every case that differs from the all-first-valid-values dictionary")
ASSUMPTIONS = [
    "booleans are outside the statement (Python treats them as integers)",
    "non-string IP address values (int/bytes, accepted by the ipaddress module) and incomplete "
    "dictionaries are outside the statement",
]

KEYS = ["MODE", "TRANSPORT_TYPE", "APPLICATIONS", "LOCAL_NODE_HOSTNAME", "LOCAL_NODE_REALM",
        "LOCAL_NODE_IP_ADDRESS", "LOCAL_NODE_PORT", "PEER_NODE_HOSTNAME", "PEER_NODE_REALM",
        "PEER_NODE_IP_ADDRESS", "PEER_NODE_PORT", "WATCHDOG_TIMEOUT"]

APP = {"vendor_id": b"\x00\x00\x28\xaf", "app_id": b"\x01\x00\x00\x23"}
APP2 = {"vendor_id": b"\x00\x00\x28\xaf", "app_id": b"\x01\x00\x00\x16"}

VALID = {
    "MODE": ["CLIENT", "SERVER"],
    "TRANSPORT_TYPE": ["TCP", "SCTP"],
    "APPLICATIONS": [[APP], [], [APP, APP2]],
    "LOCAL_NODE_HOSTNAME": ["local.example", "l"],
    "LOCAL_NODE_REALM": ["example", "realm.local"],
    "LOCAL_NODE_IP_ADDRESS": ["127.0.0.1", "10.20.30.40", "0.0.0.0"],
    "LOCAL_NODE_PORT": [3868, 1],
    "PEER_NODE_HOSTNAME": ["peer.example", "p"],
    "PEER_NODE_REALM": ["example", "realm.peer"],
    "PEER_NODE_IP_ADDRESS": ["127.0.0.2", "255.255.255.255"],
    "PEER_NODE_PORT": [3869, 65535],
    "WATCHDOG_TIMEOUT": [30, 0, 2 ** 31],
}

INVALID = {
    "MODE": ["client", "PROXY", None, 1, "", "CLIENT ", "Server"],
    "TRANSPORT_TYPE": ["UDP", "tcp", "sctp", "TCP ", 7, "", None, 0],
    "APPLICATIONS": [[{"vendor_id": "10415", "app_id": "16777251"}], [{"vendor_id": 10415, "app_id": 16777251}],
                     [{"foo": b"\x00\x00\x00\x01"}], [{"vendor_id": b"\x00\x00\x28\xaf", "app_id": None}],
                     "S6a", 16777251, [b"\x01\x00\x00\x23"], {"vendor_id": b"\x00\x00\x28\xaf"},
                     [APP, {"vendor_id": "x", "app_id": b"\x01\x00\x00\x23"}],
                     None, "", 0, (), {}, [{"vendor_id": b"\x00\x00\x28\xaf"}], [{"app_id": b"\x01\x00\x00\x23"}],
                     [{"vendor_id": b"\x00\x00\x28\xaf", "app_id": b"\x01\x00\x00\x23", "zzz": b"w"}]],
    "LOCAL_NODE_IP_ADDRESS": ["1.2.3", "256.1.1.1", "1.2.3.4.5", "::1", "127.0.0.1 ", " 127.0.0.1", "",
                              "a.b.c.d", "1.2.3.4/32", "01.2.3.4", None, "localhost", "1..2.3"],
    "PEER_NODE_IP_ADDRESS": ["1.2.3", "300.0.0.1", "2001:db8::1", "", "peer.example", None, "1.2.3.-4"],
    "WATCHDOG_TIMEOUT": [1.5, "3", None, [], "30", 30.0, (30,)],
}


def base_config():
    return {k: copy.deepcopy(VALID[k][0]) for k in KEYS}


def expected_connection(cfg):
    return {
        "name": "bromelia", "mode": cfg["MODE"], "transport_type": cfg["TRANSPORT_TYPE"],
        "application_ids": cfg["APPLICATIONS"],
        "local_node": (cfg["LOCAL_NODE_HOSTNAME"], cfg["LOCAL_NODE_REALM"], cfg["LOCAL_NODE_IP_ADDRESS"],
                       cfg["LOCAL_NODE_PORT"]),
        "peer_node": (cfg["PEER_NODE_HOSTNAME"], cfg["PEER_NODE_REALM"], cfg["PEER_NODE_IP_ADDRESS"],
                      cfg["PEER_NODE_PORT"]),
        "watchdog_timeout": cfg["WATCHDOG_TIMEOUT"],
    }


def connection_as_dict(conn):
    return {"name": conn.name, "mode": conn.mode, "transport_type": conn.transport_type,
            "application_ids": conn.application_ids, "local_node": tuple(conn.local_node),
            "peer_node": tuple(conn.peer_node), "watchdog_timeout": conn.watchdog_timeout}


def is_config_error(e):
    from bromelia.exceptions import InvalidConfigKey, InvalidConfigValue
    return isinstance(e, (InvalidConfigKey, InvalidConfigValue))


def fmt(cfg):
    return {k: (repr(v) if not isinstance(v, (str, int, type(None))) else v) for k, v in cfg.items()}


def judge(rep, cfg, bad_keys, entry, label):
    """cfg: ordered dict to submit; bad_keys: keys whose value is from an invalid alphabet (or 'EXTRA')."""
    from bromelia._internal_utils import _convert_config_to_connection_obj
    from bromelia.setup import Diameter
    snapshot = copy.deepcopy(cfg)
    wit = {"part": "dict", "config": fmt(cfg), "order": list(cfg.keys()), "entry": entry, "bad": sorted(bad_keys)}
    try:
        if entry == "convert":
            conn = _convert_config_to_connection_obj(cfg)
            seen_cfg = cfg
        else:
            d = Diameter(config=cfg)
            conn = d._connection
            seen_cfg = d.config
        err = None
    except BaseException as e:  # noqa
        err = e
    badsig = "+".join(sorted(bad_keys)) or "none"
    if err is not None:
        if not bad_keys:
            rep.violation(f"C19:{entry}:valid-rejected:{type(err).__name__}:{label}",
                          f"valid configuration rejected with {type(err).__name__}: {err}", wit)
        elif not is_config_error(err):
            rep.violation(f"C19:{entry}:wrong-error:{type(err).__name__}:{badsig}",
                          f"invalid {badsig} rejected with {type(err).__name__} ({err}) instead of the "
                          f"library's configuration error", wit)
        else:
            rep.count("rejected_properly")
    else:
        if bad_keys:
            rep.violation(f"C19:{entry}:invalid-accepted:{badsig}",
                          f"configuration with invalid {badsig} = "
                          f"{[cfg.get(k) for k in sorted(bad_keys) if k in cfg]!r} was silently accepted", wit)
        else:
            got, exp = connection_as_dict(conn), expected_connection(snapshot)
            for field in exp:
                if got[field] != exp[field]:
                    rep.violation(f"C19:{entry}:field-altered:{field}:{label}",
                                  f"Connection.{field} = {got[field]!r}, configured {exp[field]!r}", wit)
            if entry == "diameter" and dict(seen_cfg) != snapshot:
                rep.violation(f"C19:diameter:config-attr-altered:{label}",
                              f"Diameter(config).config = {dict(seen_cfg)!r} differs from the given one", wit)
            rep.count("accepted_and_reflected")
    if cfg != snapshot:
        rep.violation(f"C19:{entry}:caller-dict-mutated:{label}",
                      f"the caller's dictionary was altered: {fmt(cfg)} (was {fmt(snapshot)})", wit)


def dict_cases(tier):
    """yield (cfg, bad_keys, label)"""
    base = base_config()
    yield base, set(), "base"
    # every single value of every key
    for k in KEYS:
        for v in VALID[k][1:]:
            c = base_config(); c[k] = copy.deepcopy(v)
            yield c, set(), "single-valid"
        for v in INVALID.get(k, []):
            c = base_config(); c[k] = copy.deepcopy(v)
            yield c, {k}, "single-invalid"
    # complete pairwise (thorough: 3-wise) product over keys and their whole alphabets
    width = 3 if tier == "thorough" else 2
    for combo in itertools.combinations(KEYS, width):
        alphas = [[(v, False) for v in VALID[k]] + [(v, True) for v in INVALID.get(k, [])] for k in combo]
        if width == 3:
            # 3-wise: invalid alphabets trimmed to 3 representatives per key to keep the product finite
            alphas = [[(v, False) for v in VALID[k][:2]] + [(v, True) for v in INVALID.get(k, [])[:3]] for k in combo]
        for choice in itertools.product(*alphas):
            c = base_config()
            bad = set()
            for k, (v, isbad) in zip(combo, choice):
                c[k] = copy.deepcopy(v)
                if isbad:
                    bad.add(k)
            yield c, bad, f"{width}-wise"


def order_cases():
    base = base_config()
    for first, second in itertools.permutations(KEYS, 2):
        order = [first, second] + [k for k in KEYS if k not in (first, second)]
        yield {k: copy.deepcopy(base[k]) for k in order}, set(), "order"
        # an invalid value in the *last* position must still be rejected whatever comes first
        c = {k: copy.deepcopy(base[k]) for k in order}
        last = order[-1]
        if last in INVALID:
            c[last] = copy.deepcopy(INVALID[last][0])
            yield c, {last}, "order-invalid-last"
    yield {k: copy.deepcopy(base[k]) for k in reversed(KEYS)}, set(), "order-reversed"
    for pos in range(len(KEYS) + 1):
        for extra in ("EXTRA_KEY", "mode", "WATCHDOG"):
            items = [(k, copy.deepcopy(base[k])) for k in KEYS]
            items.insert(pos, (extra, 1))
            yield dict(items), {"EXTRA"}, "extra-key"


def part_dicts(rep, arg):
    tier, k, nk = arg
    n = nontrivial = 0
    for idx, (cfg, bad, label) in enumerate(itertools.chain(dict_cases(tier), order_cases())):
        if idx % nk != k:
            continue
        for entry in ("convert", "diameter"):
            judge(rep, copy.deepcopy(cfg) if False else {kk: copy.deepcopy(v) for kk, v in cfg.items()}, bad, entry, label)
            n += 1
    rep.add(evaluations=n, distinct=max(0, n - 2), dict_cases=n)
    rep.sample({"config": fmt(base_config()), "variation": "complete pairwise product of valid/invalid alphabets"})


# -- YAML ----------------------------------------------------------------------------------------

YAML_ENTRIES = [
    # (mode text, transport text or None, application constant names)
    ("Client", None, [("VENDOR_ID_3GPP", "DIAMETER_APPLICATION_S6a_S6d")]),
    ("SERVER", "TCP", [("VENDOR_ID_3GPP", "DIAMETER_APPLICATION_Gx")]),
    ("client", "sctp", [("VENDOR_ID_3GPP", "DIAMETER_APPLICATION_S6a_S6d"), ("VENDOR_ID_3GPP", "DIAMETER_APPLICATION_S13_S13")]),
    ("server", "SCTP", [("VENDOR_ID_3GPP", "DIAMETER_APPLICATION_Rx")]),
    ("Server", None, [("VENDOR_ID_3GPP", "DIAMETER_APPLICATION_SWx")]),
    ("CLIENT", "tcp", [("VENDOR_ID_3GPP", "DIAMETER_APPLICATION_SWm")]),
]


def yaml_text(entries):
    lines = ["api_version: v1", "name: verif", "spec:"]
    for i, (mode, transport, apps) in enumerate(entries):
        lines.append("  - applications:")
        for v, a in apps:
            lines.append(f"      - vendor_id: {v}")
            lines.append(f"        app_id: {a}")
        lines.append(f"    mode: {mode}")
        lines.append(f"    watchdog_timeout: {30 + i}")
        if transport is not None:
            lines.append(f"    transport_type: {transport}")
        lines += ["    local:", f"      ip_address: 127.0.0.{i + 1}", f"      hostname: local{i}.example",
                  f"      realm: example{i}", f"      port: {3868 + i}",
                  "    peer:", f"      ip_address: 127.0.1.{i + 1}", f"      hostname: peer{i}.example",
                  f"      realm: peerrealm{i}", f"      port: {4868 + i}"]
    return "\n".join(lines) + "\n"


def yaml_expected(entries):
    import bromelia.constants as C
    out = []
    for i, (mode, transport, apps) in enumerate(entries):
        out.append({
            "MODE": mode.upper(), "TRANSPORT_TYPE": (transport or "tcp").upper(),
            "APPLICATIONS": [{"vendor_id": getattr(C, v), "app_id": getattr(C, a)} for v, a in apps],
            "LOCAL_NODE_HOSTNAME": f"local{i}.example", "LOCAL_NODE_REALM": f"example{i}",
            "LOCAL_NODE_IP_ADDRESS": f"127.0.0.{i + 1}", "LOCAL_NODE_PORT": 3868 + i,
            "PEER_NODE_HOSTNAME": f"peer{i}.example", "PEER_NODE_REALM": f"peerrealm{i}",
            "PEER_NODE_IP_ADDRESS": f"127.0.1.{i + 1}", "PEER_NODE_PORT": 4868 + i,
            "WATCHDOG_TIMEOUT": 30 + i,
        })
    return out


def judge_yaml(rep, idxs, tmpdir):
    from bromelia._internal_utils import _convert_file_to_config, _convert_config_to_connection_obj
    import bromelia.bromelia as BB
    entries = [YAML_ENTRIES[i] for i in idxs]
    path = os.path.join(tmpdir, "cfg_" + "_".join(map(str, idxs)) + ".yaml")
    with open(path, "w") as f:
        f.write(yaml_text(entries))
    exp = yaml_expected(entries)
    shape = ",".join(("t" if e[1] else "-") for e in entries)
    wit = {"part": "yaml", "entries": list(idxs), "yaml": yaml_text(entries)}
    for entry in ("convert_file", "bromelia"):
        try:
            if entry == "convert_file":
                configs = _convert_file_to_config(path, vars(BB))
            else:
                configs = BB.Bromelia(config_file=path).configs
        except BaseException as e:  # noqa
            rep.violation(f"C19:yaml:{entry}:raises-{type(e).__name__}", f"valid YAML spec raised "
                          f"{type(e).__name__}: {e}", wit)
            continue
        if len(configs) != len(exp):
            rep.violation(f"C19:yaml:{entry}:entry-count", f"{len(configs)} descriptions for {len(exp)} entries", wit)
            continue
        for i, (got, want) in enumerate(zip(configs, exp)):
            for key in want:
                if got.get(key) != want[key]:
                    rep.violation(f"C19:yaml:{entry}:{key}:transport-shape[{shape}]" if key == "TRANSPORT_TYPE"
                                  else f"C19:yaml:{entry}:{key}",
                                  f"entry {i}: {key} = {got.get(key)!r}, spec says {want[key]!r} "
                                  f"(transports given: {shape})", wit)
            extra = set(got) - set(want)
            if extra:
                rep.violation(f"C19:yaml:{entry}:extra-keys", f"entry {i} has extra keys {sorted(extra)}", wit)
            try:
                conn = _convert_config_to_connection_obj(dict(got))
                if connection_as_dict(conn) != expected_connection(want):
                    rep.violation(f"C19:yaml:{entry}:connection", f"entry {i}: connection differs from spec", wit)
            except BaseException as e:  # noqa
                rep.violation(f"C19:yaml:{entry}:connection-raises-{type(e).__name__}",
                              f"entry {i}: description rejected: {e}", wit)
    os.unlink(path)


# invalid YAML entries: (label, mode, transport, applications, ip of the local node, watchdog text)
YAML_INVALID = [
    ("unknown-app-constant", "client", None, [("VENDOR_ID_3GPP", "DIAMETER_APPLICATION_S6b_S6d")], "127.0.0.1", "30"),
    ("unknown-vendor-constant", "client", None, [("VENDOR_ID_3GGP", "DIAMETER_APPLICATION_S6a_S6d")], "127.0.0.1", "30"),
    ("unknown-app-constant-second", "server", "tcp", [("VENDOR_ID_3GPP", "DIAMETER_APPLICATION_Gx"), ("VENDOR_ID_3GPP", "gx")], "127.0.0.1", "30"),
    ("unknown-mode", "proxy", None, [("VENDOR_ID_3GPP", "DIAMETER_APPLICATION_Gx")], "127.0.0.1", "30"),
    ("unknown-transport", "client", "udp", [("VENDOR_ID_3GPP", "DIAMETER_APPLICATION_Gx")], "127.0.0.1", "30"),
    ("malformed-ip", "client", None, [("VENDOR_ID_3GPP", "DIAMETER_APPLICATION_Gx")], "127.0.0.256", "30"),
    ("non-integer-timeout", "client", None, [("VENDOR_ID_3GPP", "DIAMETER_APPLICATION_Gx")], "127.0.0.1", "soon"),
    ("float-timeout", "client", None, [("VENDOR_ID_3GPP", "DIAMETER_APPLICATION_Gx")], "127.0.0.1", "1.5"),
    # values of another YAML type where a word is expected
    ("mode-not-a-string", "1", None, [("VENDOR_ID_3GPP", "DIAMETER_APPLICATION_Gx")], "127.0.0.1", "30"),
    ("mode-a-list", "[client]", None, [("VENDOR_ID_3GPP", "DIAMETER_APPLICATION_Gx")], "127.0.0.1", "30"),
    ("transport-not-a-string", "client", "7", [("VENDOR_ID_3GPP", "DIAMETER_APPLICATION_Gx")], "127.0.0.1", "30"),
    ("ip-not-a-string", "client", None, [("VENDOR_ID_3GPP", "DIAMETER_APPLICATION_Gx")], "[127, 0, 0, 1]", "30"),
    ("app-constant-not-a-string", "client", None, [("VENDOR_ID_3GPP", "16777238")], "127.0.0.1", "30"),
    # unknown keys: a misspelt optional key in the entry, an extra key in the entry, an extra key under local
    ("unknown-key-misspelt", "client", "sctp", [("VENDOR_ID_3GPP", "DIAMETER_APPLICATION_Gx")], "127.0.0.1", "30"),
    ("unknown-key-entry", "client", None, [("VENDOR_ID_3GPP", "DIAMETER_APPLICATION_Gx")], "127.0.0.1", "30"),
    ("unknown-key-local", "client", None, [("VENDOR_ID_3GPP", "DIAMETER_APPLICATION_Gx")], "127.0.0.1", "30"),
]


def yaml_invalid_text(inv, position, n_valid):
    """A spec list of n_valid valid entries with the invalid one inserted at `position`."""
    label, mode, transport, apps, ip, wd = inv
    valid = yaml_text([YAML_ENTRIES[i % len(YAML_ENTRIES)] for i in range(n_valid)]).split("\n")
    head, body = valid[:3], valid[3:]
    # split the valid entries
    entries, cur = [], []
    for ln in body:
        if ln.startswith("  - ") and cur:
            entries.append(cur)
            cur = []
        if ln:
            cur.append(ln)
    if cur:
        entries.append(cur)
    bad = ["  - applications:"]
    for v, a in apps:
        bad += [f"      - vendor_id: {v}", f"        app_id: {a}"]
    bad += [f"    mode: {mode}", f"    watchdog_timeout: {wd}"]
    if transport is not None:
        bad.append(f"    {'transport_typ' if label == 'unknown-key-misspelt' else 'transport_type'}: {transport}")
    if label == "unknown-key-entry":
        bad.append("    foo: bar")
    bad += ["    local:", f"      ip_address: {ip}", "      hostname: localx.example", "      realm: examplex", "      port: 3999"]
    if label == "unknown-key-local":
        bad.append("      foo: bar")
    bad += [
            "    peer:", "      ip_address: 127.0.9.9", "      hostname: peerx.example", "      realm: peerrealmx", "      port: 4999"]
    entries.insert(position, bad)
    return "\n".join(head + [ln for e in entries for ln in e]) + "\n"


def judge_yaml_invalid(rep, inv, position, n_valid, tmpdir):
    """A complete YAML spec with one invalid entry must end in the library's configuration error at some
    stage of file -> descriptions -> connection objects, never in another exception, never accepted."""
    from bromelia._internal_utils import _convert_file_to_config, _convert_config_to_connection_obj
    import bromelia.bromelia as BB
    text = yaml_invalid_text(inv, position, n_valid)
    path = os.path.join(tmpdir, f"bad_{inv[0]}_{position}_{n_valid}.yaml")
    with open(path, "w") as f:
        f.write(text)
    wit = {"part": "yaml-invalid", "invalid": inv[0], "position": position, "n_valid": n_valid, "yaml": text}
    try:
        configs = _convert_file_to_config(path, vars(BB))
        for c in configs:
            _convert_config_to_connection_obj(dict(c))
        err = None
    except BaseException as e:  # noqa
        err = e
    os.unlink(path)
    if err is None:
        rep.violation(f"C19:yaml:invalid-accepted:{inv[0]}", f"YAML spec with {inv[0]} was accepted", wit)
    elif not is_config_error(err):
        rep.violation(f"C19:yaml:wrong-error:{type(err).__name__}:{inv[0]}",
                      f"YAML spec with {inv[0]} ended in {type(err).__name__}: {err} instead of the library's "
                      f"configuration error", wit)
    else:
        rep.count("yaml_rejected_properly")


def part_yaml(rep, arg):
    maxlen, = arg
    n = 0
    with tempfile.TemporaryDirectory(prefix="verif_c19_") as tmpdir:
        for ln in range(1, maxlen + 1):
            for idxs in itertools.product(range(len(YAML_ENTRIES)), repeat=ln):
                judge_yaml(rep, idxs, tmpdir)
                n += 2
        for inv in YAML_INVALID:
            for n_valid in range(0, maxlen + 1):
                for position in range(n_valid + 1):
                    judge_yaml_invalid(rep, inv, position, n_valid, tmpdir)
                    n += 1
    rep.add(evaluations=n, distinct=n, yaml_cases=n)
    rep.sample({"yaml_entries": [YAML_ENTRIES[0], YAML_ENTRIES[2]]})


def _shard(rep, arg):
    kind, payload = arg
    (part_dicts if kind == "dicts" else part_yaml)(rep, payload)


def run(report, tier, seed):
    nk = core.jobs() * (4 if tier == "thorough" else 1)
    shards = [("dicts", (tier, (k + seed) % nk, nk)) for k in range(nk)]
    shards.append(("yaml", (3 if tier == "thorough" else 2,)))
    core.run_shards(report, _shard, shards)
    return {}


def replay(w):
    rep = core.Report("C19")
    if w["part"] == "yaml":
        with tempfile.TemporaryDirectory(prefix="verif_c19_") as tmpdir:
            judge_yaml(rep, tuple(w["entries"]), tmpdir)
    elif w["part"] == "yaml-invalid":
        inv = [i for i in YAML_INVALID if i[0] == w["invalid"]][0]
        with tempfile.TemporaryDirectory(prefix="verif_c19_") as tmpdir:
            judge_yaml_invalid(rep, inv, w["position"], w["n_valid"], tmpdir)
    else:
        # rebuild the dictionary from the alphabets by matching the recorded representation
        found = False
        for cfg, bad, label in itertools.chain(dict_cases("thorough"), order_cases()):
            if fmt(cfg) == w["config"] and list(cfg.keys()) == w["order"]:
                judge(rep, {k: copy.deepcopy(v) for k, v in cfg.items()}, bad, w["entry"], label)
                found = True
                break
        if not found:
            print("recorded configuration not found in the alphabets")
            return True
    for v in rep.violations.values():
        print(v.signature, "|", v.what)
    return bool(rep.violations)
