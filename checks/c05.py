# -*- coding: utf-8 -*-
"""C05 - Submitted messages are written to the socket exactly once, whole and in order (SCHED).

Real Diameter node on the virtual runtime (opened by the real handshake); k application threads submit
messages through Diameter.send_message / send_messages; the fake socket may accept short writes
(environment choice points) and the peer may deliver inbound traffic at the same time; the schedule explorer
enumerates every schedule and environment answer pattern with <= d deviations.
"""
from vk import core
from vk.vrt import explore, node, shims
from checks.c04 import SHARED_NODE

LEVEL = "model_checking"
RULE = ("stateless schedule exploration of the real threads {k submitters, state machine, transport, receive "
        "worker, scripted peer} x environment answers of socket.send {all, 1 byte, all-but-1} (a non-default "
        "answer is a deviation): k = 1..2 submitters (thorough 3) x 1..2 messages each (send_message and "
        "send_messages; 3 each against a 96-byte send-buffer limit) x inbound traffic {none, one DWR, one DWR / one application message "
        "sent when the peer sees the first outbound byte, one application message} x send-buffer limit {default, 96, 40 "
        "bytes}; every schedule/answer pattern with <= d deviations (d = 1 quick; thorough d = 2 on k = 1); message "
        "forms {DiameterRequest, DiameterAnswer} everywhere and {loaded answer, loaded request, converted, constructed "
        "generic answer, constructed generic request} at d = 0 (5 per submitter, both roles, send_message and "
        "send_messages); the SCTP transport classes over a fake pysctp socket (3 scenarios, thorough 7). A "
        "state = one executed schedule")
ASSUMPTIONS = [
    "scheduling points as in C04 (synchronisation/socket/selector operations + shared-attribute source lines)",
    "the oracle reads only the byte strings accepted by the fake socket's send() after the handshake",
    "a DWA for an inbound DWR, and a DWR the node's own watchdog emits, may appear anywhere between whole messages",
    "quiescence = no change during 8 virtual seconds of timer firings after all submitters returned",
]


def make_message(tag, i, forms="typed"):
    """Distinct application answers/requests of 44..60 bytes, built with the library (public API).
    forms = "typed": DiameterAnswer / DiameterRequest objects alternately; forms = "generic": the other shapes a
    message handed to send_message() can have - a plain DiameterMessage as returned by DiameterMessage.load()
    (what a relay forwards: answer, request), by DiameterMessage.convert(), or built with the DiameterMessage
    constructor (answer, request), cyclically."""
    from bromelia.base import DiameterAnswer, DiameterRequest, DiameterMessage, DiameterHeader
    import bromelia.avps as A
    if forms == "generic":
        kind = i % 5
        if kind == 0:
            m = DiameterMessage.load(node.app_answer(40 + tag * 8 + i, hbh=0x55000000 + tag * 16 + i))[0]
        elif kind == 1:
            m = DiameterMessage.load(node.app_request(40 + tag * 8 + i, hbh=0x56000000 + tag * 16 + i))[0]
        elif kind == 2:
            m = DiameterMessage.convert(make_message(tag + 4, 0))
            m.header.hop_by_hop = 0x57000000 + tag * 16 + i
        elif kind == 3:
            m = DiameterMessage(DiameterHeader(flags=0x40, command_code=318, application_id=node.S6A,
                                               hop_by_hop=0x58000000 + tag * 16 + i, end_to_end=0x59000000 + tag * 16 + i),
                                avps=[A.SessionIdAVP(f"g{tag}{i};1;2".encode()), A.ResultCodeAVP(2001)])
        else:
            m = DiameterMessage(DiameterHeader(flags=0xc0, command_code=318, application_id=node.S6A,
                                               hop_by_hop=0x5a000000 + tag * 16 + i, end_to_end=0x5b000000 + tag * 16 + i),
                                avps=[A.SessionIdAVP(f"g{tag}{i};1;2".encode()), A.OriginHostAVP(node.LOCAL["host"])])
        return m
    if i % 2 == 0:
        m = DiameterAnswer(command_code=316, application_id=node.S6A,
                           avps=[A.SessionIdAVP(f"m{tag}{i};1;2".encode()), A.ResultCodeAVP(2001)])
        m.header.hop_by_hop = 0x51000000 + tag * 16 + i
        m.header.end_to_end = 0x52000000 + tag * 16 + i
    else:
        m = DiameterRequest(command_code=317, application_id=node.S6A,
                            avps=[A.SessionIdAVP(f"m{tag}{i};1;2".encode()), A.OriginHostAVP(node.LOCAL["host"])])
        m.header.hop_by_hop = 0x53000000 + tag * 16 + i
        m.header.end_to_end = 0x54000000 + tag * 16 + i
    return m


class Outbound(explore.Scenario):
    name = "outbound"
    horizon = 90.0
    max_points = 40000
    idle_window = 8.0
    shared = SHARED_NODE
    auto_shared = True

    def driver(self, rt):
        P = self.params
        k, per, inbound, role = P["k"], P["per"], P.get("inbound", "none"), P.get("role", "server")
        n = node.open_node(rt, role, transport=self.params.get("transport", "tcp"))
        if P.get("send_buffer"):
            # shrunk only after the handshake: the CEA itself (172 bytes) must fit
            n.SU.SEND_BUFFER_MAXIMUM_SIZE = P["send_buffer"]
        obs = rt.observations
        obs.update(opened=n.opened, submitted={}, returned=[])
        if not n.opened:
            rt.stop("handshake-failed")
        baseline = len(n.peer.received())
        rt.net.partial_writes = bool(P.get("partial", True))
        T = shims.Thread
        plans = {}
        for t in range(k):
            msgs = [make_message(t, i, P.get("forms", "typed")) for i in range(per)]
            plans[t] = msgs
            obs["submitted"][t] = [m.dump().hex() for m in msgs]

        def submitter(t):
            msgs = plans[t]
            if P.get("batch") and len(msgs) > 1:
                n.diameter.send_messages(msgs)
            else:
                for m in msgs:
                    n.diameter.send_message(m)
            obs["returned"].append(t)

        def peer():
            if inbound == "dwr":
                n.peer.send(node.dwr(0x0e000001, 0x0f000001))
            elif inbound == "dwr-on-data":
                # a peer that reacts to the first byte it sees (inbound traffic while a write is half done)
                n.peer.wait_for(lambda: len(n.peer.received()) > baseline, "first-byte", timeout=20.0)
                n.peer.send(node.dwr(0x0e000001, 0x0f000001))
            elif inbound == "app-on-data":
                # the same with a message the node does not answer itself (no later write that could hide a
                # stranded tail)
                n.peer.wait_for(lambda: len(n.peer.received()) > baseline, "first-byte", timeout=20.0)
                n.peer.send(node.app_request(7))
            elif inbound == "app":
                n.peer.send(node.app_request(7))

        rt.begin_exploration()
        ts = [T(target=submitter, args=(t,), name=f"app-submitter{t}") for t in range(k)]
        pt = T(target=peer, name="peer-inbound")
        for t in ts:
            t.start()
        pt.start()
        for t in ts:
            t.join()
        pt.join()
        total = sum(len(bytes.fromhex(h)) for hs in obs["submitted"].values() for h in hs)

        def all_out():
            return len(n.peer.received()) - baseline >= total + (64 if inbound.startswith("dwr") else 0)
        if P.get("close_after"):
            # the application stops the node right after submitting: what it has submitted is still written,
            # ahead of the DPR; the peer answers the DPR
            n.diameter.close()
            if n.peer.wait_for(lambda: any(node.header_of(m)["code"] == 282 for m in node.split_stream(n.peer.received()[baseline:])[0]),
                               "dpr-seen", timeout=rt.stall_time + 10.0):
                dprs = [m for m in node.split_stream(n.peer.received()[baseline:])[0] if node.header_of(m)["code"] == 282]
                h = node.header_of(dprs[-1])
                n.peer.send(node.dpa(h["hbh"], h["e2e"]))
        n.peer.wait_for(all_out, "all-written", timeout=rt.stall_time + 10.0)
        n.settle(rt.stall_time + 2.0)
        obs["out"] = n.peer.received()[baseline:].hex()
        obs["writes"] = list(n.peer.conn.writes)
        a = n.assoc
        tr = a.transport if a is not None else None
        obs["leftover"] = {
            "send_queue": len(a._send_messages.peek_all()) if a is not None else None,
            "data_stream": len(tr.data_stream) if tr is not None else None,
            "send_buffer": len(tr._send_buffer) if tr is not None else None,
        }
        obs["state"] = n.state()
        rt.stop()

    def oracle(self, rt):
        obs = rt.observations
        P = self.params
        shape = f"k{P['k']}x{P['per']}:{P.get('inbound', 'none')}" + (":sctp" if P.get("transport") == "sctp" else "") + (":generic" if P.get("forms") == "generic" else "")
        if rt.verdict == "handshake-failed":
            return [("C05:handshake-failed", "the node did not reach Open in the deterministic prefix")]
        errs = []
        submitted = obs.get("submitted", {})
        if rt.verdict != "done" and "out" not in obs:
            stuck = [f"{n}@{w}" for n, st, w, lib in rt.final_states if st != "done" and lib and w and "sleep" not in w and "select" not in w]
            errs.append((f"C05:{rt.verdict}:submitters-stuck:{shape}",
                         f"execution ended in {rt.verdict}; returned submitters {obs.get('returned')}; blocked: {stuck}; "
                         f"locks held: {rt.final_locks}"))
            return errs
        out = bytes.fromhex(obs.get("out", ""))
        msgs, rest = node.split_stream(out)
        want = {h: t for t, hs in submitted.items() for h in hs}
        seen = {}
        foreign = []
        for m in msgs:
            hx = m.hex()
            if hx in want:
                seen[hx] = seen.get(hx, 0) + 1
            else:
                h = node.header_of(m)
                if h["code"] == 280:      # DWA for the inbound DWR / DWR of the node's own watchdog
                    continue
                if h["code"] == 282 and P.get("close_after"):      # the DPR of the local close
                    if seen and len(seen) < len(want):
                        errs.append((f"C05:dpr-before-submitted:{shape}", "the DPR was written before messages submitted earlier"))
                    continue
                foreign.append(hx[:64])
        if rest:
            errs.append((f"C05:torn-tail:{shape}", f"the byte stream ends with {len(rest)} bytes that are not a whole message: "
                                                   f"{rest.hex()[:64]} (writes {obs.get('writes')})"))
        if foreign:
            errs.append((f"C05:torn-or-interleaved:{shape}", f"the socket received message(s) nobody submitted: {foreign[:3]}"))
        dup = [h[:40] for h, c in seen.items() if c > 1]
        if dup:
            errs.append((f"C05:duplicated:{shape}", f"{len(dup)} submitted message(s) were written more than once: {dup[:2]} "
                                                    f"(writes {obs.get('writes')})"))
        lost = [h[:40] for h in want if h not in seen]
        if lost and not rest and not foreign:
            errs.append((f"C05:lost:{shape}", f"{len(lost)} of {len(want)} submitted message(s) never reached the socket: {lost[:2]}; "
                                              f"leftover {obs.get('leftover')}"))
        # per-submitter order
        order = [m.hex() for m in msgs if m.hex() in want]
        for t, hs in submitted.items():
            mine = [h for h in order if want[h] == t]
            dedup = []
            for h in mine:
                if h not in dedup:
                    dedup.append(h)
            if dedup != [h for h in hs if h in dedup]:
                errs.append((f"C05:reordered:{shape}", f"submitter {t}'s messages were written out of submission order"))
        for t in rt.crashed_threads():
            if t.library:
                errs.append((f"C05:thread-crashed:{t.name.rstrip('0123456789')}:{type(t.exc).__name__}",
                             f"{t.name} died: {type(t.exc).__name__}: {t.exc}"))
        return errs

    def outcome(self, rt):
        out, rest = node.split_stream(bytes.fromhex(rt.observations.get("out", "")))
        return (rt.verdict, tuple((node.header_of(m)["code"], node.header_of(m)["hbh"] >> 24) for m in out), len(rest))


def plan(tier):
    thorough = tier == "thorough"

    def P(**kw):
        d = dict(k=1, per=1, inbound="none", role="server", partial=True, batch=False, send_buffer=None, close_after=False)
        d.update(kw)
        return d
    # quick: the core shapes at d = 1
    yield P(k=1, per=1), 1
    yield P(k=1, per=2), 1
    yield P(k=1, per=2, batch=True), 1
    yield P(k=1, per=1, inbound="dwr"), 1
    yield P(k=2, per=1), 1
    yield P(k=1, per=2, send_buffer=96), 1
    yield P(k=1, per=3, batch=True, send_buffer=96), 1
    yield P(k=1, per=1, inbound="app-on-data"), 1
    yield P(k=1, per=3, batch=True, send_buffer=96, close_after=True), 0
    yield P(k=1, per=2, close_after=True), 1
    # every form a submitted message can have (plain DiameterMessage objects: loaded, converted, constructed)
    yield P(k=1, per=5, forms="generic"), 0
    yield P(k=1, per=5, forms="generic", batch=True), 0
    yield P(k=1, per=5, forms="generic", role="client"), 0
    yield P(k=2, per=3, forms="generic"), 0
    # the SCTP transport classes (their own _write/_read over a fake pysctp socket on the same virtual network)
    yield P(k=1, per=2, transport="sctp"), 1
    yield P(k=1, per=1, inbound="app-on-data", transport="sctp", role="client"), 1
    yield P(k=1, per=3, batch=True, send_buffer=96, close_after=True, transport="sctp"), 0
    if thorough:
        # (d <= 1 on these is planned; this session completed them at d = 0 only)
        yield P(k=2, per=1, transport="sctp"), 0
        yield P(k=1, per=2, batch=True, send_buffer=96, transport="sctp", role="client"), 0
        yield P(k=1, per=1, inbound="dwr", transport="sctp"), 0
        yield P(k=1, per=2, close_after=True, transport="sctp"), 0
        yield P(k=1, per=3, batch=True, send_buffer=96, close_after=True), 1
        yield P(k=2, per=2, send_buffer=96, close_after=True), 1
        yield P(k=1, per=1, inbound="dwr-on-data"), 1
        yield P(k=2, per=1, inbound="app-on-data"), 1
        yield P(k=1, per=1, inbound="app-on-data"), 2
        yield P(k=1, per=3, send_buffer=40), 1
        yield P(k=2, per=3, batch=True, send_buffer=96), 1
        yield P(k=1, per=2, inbound="dwr-on-data"), 1
        yield P(k=1, per=1, inbound="app"), 1
        yield P(k=2, per=1, inbound="dwr"), 1
        yield P(k=2, per=2), 1
        yield P(k=2, per=2, batch=True), 1
        yield P(k=3, per=1), 1
        yield P(k=1, per=2, role="client"), 1
        yield P(k=2, per=1, role="client", inbound="dwr"), 1
        yield P(k=2, per=2, send_buffer=96), 1
        yield P(k=1, per=1), 2


def _shard(rep, arg):
    params, bound, k, n = arg
    scn = Outbound(**params)
    stats = {"executions": 0, "points": 0}
    if k == 0:
        base = explore.selfcheck_determinism(scn)
        explore.run_one(scn, (), rep, stats)
        rep.sample({"scenario": scn.name, "params": params, "deviation_bound": bound,
                    "points_after_handshake": len(base.points) - (base.explore_from or 0),
                    "env_choice_points": sum(1 for p in base.points if p.kind == "env.write")})
    else:
        base = explore.execute(scn)
    if bound >= 1:
        firsts = explore.successors(base, ())
        explore.explore_subtree(scn, firsts[k::n], bound, rep, stats)
    rep.add(evaluations=stats["executions"], distinct=stats["executions"], executions=stats["executions"],
            scheduling_points=stats["points"])


def run(report, tier, seed):
    shards = []
    nscn = 0
    for params, bound in plan(tier):
        nscn += 1
        n = 1 if bound == 0 else 8 if bound == 1 else 64
        shards += [(params, bound, k, n) for k in range(n)]
    k = seed % max(1, len(shards))
    shards = shards[k:] + shards[:k]
    core.run_shards(report, _shard, shards, shard_timeout=6000)
    c = report.counters
    return {"_level_keys": {"states": c.get("executions", 0), "transitions": c.get("scheduling_points", 0),
                            "traces_validated_against_impl": c.get("executions", 0)}, "scenarios": nscn}


def replay(w):
    scn = Outbound(**w["params"])
    rt = explore.execute(scn, {int(i): int(a) for i, a in w["choices"]})
    errs = scn.oracle(rt)
    start = rt.explore_from or 0
    shown = 0
    for i, p in enumerate(rt.points[start:], start):
        if p.chosen or (p.kind not in ("sel.select", "time.sleep", "queue.empty", "queue.qsize") and shown < 300):
            shown += 1
            print(f"  [{i}] {p.thread:24s} {p.kind:14s} {p.label:28s} chosen={p.chosen} of {p.cands}")
    print("verdict:", rt.verdict, "| writes", rt.observations.get("writes"), "| leftover", rt.observations.get("leftover"))
    for sig, text in errs:
        print(sig, "|", text)
    return bool(errs)
