# -*- coding: utf-8 -*-
"""C07, two node objects in one process (SCHED): every node answers the base requests *it* received.

Two real `Diameter` nodes with the same local identity (two connections of one host, different ports) are
opened by the real handshake; their peers then send a base request each, with different identifiers, at the
same moment, and the schedule explorer enumerates every schedule with <= d deviations. Each connection must
carry exactly one answer, echoing the identifiers of the request received on that connection."""
from vk.vrt import explore, node, shims
from checks.c04 import SHARED_NODE


class TwoNodes(explore.Scenario):
    name = "two-nodes"
    horizon = 120.0
    max_points = 60000
    idle_window = 8.0
    shared = SHARED_NODE
    auto_shared = True

    def driver(self, rt):
        P = self.params
        what, role = P["what"], P.get("role", "server")
        obs = rt.observations
        a = node.open_node(rt, role)
        b = node.open_node(rt, role, port_offset=10)
        obs.update(opened=a.opened and b.opened, out={})
        if not (a.opened and b.opened):
            rt.stop("handshake-failed")
        base = {0: len(a.peer.received()), 1: len(b.peer.received())}
        ids = {0: (0x11110001, 0x22220001), 1: (0x33330002, 0x44440002)}
        obs["ids"] = {k: list(v) for k, v in ids.items()}
        build = {"dwr": node.dwr, "dpr": node.dpr}[what]
        T = shims.Thread

        def peer(k, n):
            n.peer.send(build(*ids[k]))
            n.peer.wait_for(lambda: len(node.split_stream(n.peer.received()[base[k]:])[0]) >= 1, "answer", timeout=rt.stall_time + 10.0)

        rt.begin_exploration()
        ts = [T(target=peer, args=(0, a), name="peer-a"), T(target=peer, args=(1, b), name="peer-b")]
        for t in ts:
            t.start()
        for t in ts:
            t.join()
        a.settle(rt.stall_time + 3.0)
        for k, n in ((0, a), (1, b)):
            obs["out"][k] = n.peer.received()[base[k]:].hex()
        rt.stop()

    def oracle(self, rt):
        obs = rt.observations
        what = self.params["what"]
        code = {"dwr": 280, "dpr": 282}[what]
        if rt.verdict == "handshake-failed":
            return [("C07:two-nodes:handshake-failed", "the two nodes did not both reach Open in the deterministic prefix")]
        if rt.verdict != "done":
            return [(f"C07:two-nodes:{rt.verdict}:{what}", f"execution ended in {rt.verdict}; out={obs.get('out')}")]
        errs = []
        for k in (0, 1):
            msgs, rest = node.split_stream(bytes.fromhex(obs["out"].get(k, "")))
            answers = [node.header_of(m) for m in msgs if node.header_of(m)["code"] == code and not node.header_of(m)["request"]]
            want = tuple(obs["ids"][k])
            got = [(h["hbh"], h["e2e"]) for h in answers]
            # a DWA is due whatever the schedule (the connection stays up); a DPA may be lost when the transport
            # thread is kept off the CPU for longer than the node waits before it closes the socket (that the DPR is
            # answered is C06's clause, judged on the default schedule): no answer is tolerated there, a foreign or a
            # second one never
            if got != [want] and not (what == "dpr" and got == []):
                errs.append((f"C07:two-nodes:answer-without-matching-request:{code}",
                             f"connection {k} received request {want[0]:#x}/{want[1]:#x} and carried answers "
                             f"{[(hex(x), hex(y)) for x, y in got]} (the other connection's request was "
                             f"{tuple(hex(v) for v in obs['ids'][1 - k])})"))
        for t in rt.crashed_threads():
            if t.library:
                errs.append((f"C07:two-nodes:thread-crashed:{t.name.rstrip('0123456789')}:{type(t.exc).__name__}",
                             f"{t.name} died: {type(t.exc).__name__}: {t.exc}"))
        return errs

    def outcome(self, rt):
        return (rt.verdict, tuple(sorted(rt.observations.get("out", {}).items())))


def plan(tier):
    yield dict(what="dwr"), 1
    yield dict(what="dpr"), 1
    if tier == "thorough":
        yield dict(what="dwr", role="client"), 0      # (d <= 1 / d <= 2 planned; not completed in this session)


def shard(rep, arg):
    params, bound, k, n = arg
    scn = TwoNodes(**params)
    stats = {"executions": 0, "points": 0}
    if k == 0:
        base = explore.selfcheck_determinism(scn)
        explore.run_one(scn, (), rep, stats)
        rep.sample({"scenario": scn.name, "params": params, "deviation_bound": bound,
                    "points_after_handshakes": len(base.points) - (base.explore_from or 0)})
    else:
        base = explore.execute(scn)
    if bound >= 1:
        firsts = explore.successors(base, ())
        explore.explore_subtree(scn, firsts[k::n], bound, rep, stats)
    rep.add(evaluations=stats["executions"], distinct=stats["executions"], two_node_executions=stats["executions"],
            two_node_points=stats["points"])


def shards(tier):
    out = []
    for params, bound in plan(tier):
        n = 1 if bound == 0 else (8 if bound == 1 else 64)
        out += [(params, bound, k, n) for k in range(n)]
    return out


def replay(w):
    scn = TwoNodes(**w["params"])
    rt = explore.execute(scn, {int(i): int(a) for i, a in w["choices"]})
    errs = scn.oracle(rt)
    print("verdict:", rt.verdict, "| out:", rt.observations.get("out"), "| ids:", rt.observations.get("ids"))
    for sig, text in errs:
        print(sig, "|", text)
    return bool(errs)
