# -*- coding: utf-8 -*-
"""C07 - Base-protocol answers echo the identifiers of the request they answer (HIST, same search as C06).

The breadth-first search over event histories of checks/c06.py is run again and the answer-matching clauses
of its per-step oracle are reported under this property: every emitted CEA/DWA/DPA matches exactly one request
received in that step (same command code, R clear, same Hop-by-Hop and End-to-End), carries the local origin
and a Result-Code, and answers leave in the order of the requests - including two base requests arriving in
one read and a connection reopened with the same node object."""
from checks import c06

LEVEL = c06.LEVEL
RULE = c06.RULE + ("; C07 reads the answer-matching clauses: identifiers from the boundary alphabet "
                   "{0, 1, 0x7fffffff, 0x80000000, 0xffffffff} rotate over the requests of a history")
ASSUMPTIONS = c06.ASSUMPTIONS


def run(report, tier, seed):
    return c06.run_for(report, tier, seed, "C07")


def replay(w):
    return c06.replay(w)
