# -*- coding: utf-8 -*-
"""C07 - Base-protocol answers echo the identifiers of the request they answer (HIST, same search as C06).

The breadth-first search over event histories of checks/c06.py is run again and the answer-matching clauses
of its per-step oracle are reported under this property: every emitted CEA/DWA/DPA matches exactly one request
received in that step (same command code, R clear, same Hop-by-Hop and End-to-End), carries the local origin
and a Result-Code, and answers leave in the order of the requests - including two base requests arriving in
one read and a connection reopened with the same node object."""
from checks import c06

LEVEL = c06.LEVEL
RULE = c06.RULE + ("; C07 reads the answer-matching clauses: identifiers from the boundary alphabet "
                   "{0, 1, 0x7fffffff, 0x80000000, 0xffffffff} rotate over the requests of a history; plus a schedule "
                   "exploration (d <= 1; thorough adds the client role on the default schedule) of two node objects with the same local identity "
                   "that receive a DWR / a DPR each at the same moment: every connection carries exactly the answer to its "
                   "own request")
ASSUMPTIONS = c06.ASSUMPTIONS


def run(report, tier, seed):
    from vk import core
    from checks import c07_two
    extra = c06.run_for(report, tier, seed, "C07")
    # two node objects in one process, base requests on both connections at once (schedule explorer)
    core.run_shards(report, c07_two.shard, c07_two.shards(tier), shard_timeout=3000)
    lk = extra["_level_keys"]
    c = report.counters
    lk["states"] += c.get("two_node_executions", 0)
    lk["transitions"] += c.get("two_node_points", 0)
    lk["traces_validated_against_impl"] += c.get("two_node_executions", 0)
    return extra


def replay(w):
    if w.get("scenario") == "two-nodes":
        from checks import c07_two
        return c07_two.replay(w)
    return c06.replay(w)
