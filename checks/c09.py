# -*- coding: utf-8 -*-
"""C09 - Typed command classes build exactly the command they name (ENUM).

The 50 DiameterRequest/DiameterAnswer subclasses under bromelia.lib are discovered by introspection
and compared with the hand-written command table vk/ref/refcmds.json; each is built with every subset
(bounded, see RULE) of its omittable arguments, in-domain values per argument, 0..2 extra keyword
AVPs, and with each mandatory-without-default argument omitted.
"""
import importlib
import inspect
import itertools
import json
import os
import pkgutil

from vk import absavp, core
from vk.absavp import Abs
from vk.ref import refcodec

LEVEL = "exploration"
RULE = ("50 typed classes x subsets of their None-default arguments (quick: sizes 0, 1, 2 and all; "
        "thorough: every subset when there are <= 12 such arguments, else sizes <= 3 and >= n-1) x two value "
        "variants per argument x {no extra, 1 extra, 2 extra keyword AVPs} + an all-defaults build + "
        "omission of each mandatory argument without default + request/answer pairing. A case is one "
        "constructor call; distinct by construction; non-trivial = every call with at least one supplied "
        "optional or extra AVP")
ASSUMPTIONS = [
    "vk/ref/refcmds.json (command code, Application-ID, request/answer per class) is written from the "
    "RFC/TS texts, not from the library",
    "classes whose Application-ID is supplied by the caller (RFC 6733 RAR/ASR via auth_application_id; "
    "RAA/ASA via header assignment after construction, as their docstrings show) are checked with the id "
    "the caller supplies",
    "arguments are independent except through attribute-name suffixes, so bounded subset sizes cover the "
    "interaction space (pairs exercise the suffix logic)",
    "a str session_id is expanded by the Session-Id generator (C16); its AVP is checked by prefix",
]

with open(os.path.join(os.path.dirname(absavp.__file__), "ref", "refcmds.json")) as _f:
    REFCMDS = json.load(_f)["commands"]

CALLER_APP = 16777236  # Rx, used where the application is the caller's choice


def discover():
    import bromelia.lib as L
    from bromelia.base import DiameterRequest, DiameterAnswer
    found = {}
    for m in pkgutil.walk_packages(L.__path__, "bromelia.lib."):
        mod = importlib.import_module(m.name)
        for n, c in vars(mod).items():
            if (inspect.isclass(c) and issubclass(c, (DiameterRequest, DiameterAnswer))
                    and c not in (DiameterRequest, DiameterAnswer) and c.__module__ == mod.__name__):
                found[f"{c.__module__.split('.')[2]}.{c.__name__}"] = c
    return found


def params_of(cls):
    sig = inspect.signature(cls.__init__)
    out = []
    for p in list(sig.parameters.values())[1:]:
        if p.kind in (p.VAR_KEYWORD, p.VAR_POSITIONAL):
            continue
        out.append((p.name, p.default))
    return out


ARG_NAME_EXCEPTIONS = {}


def convention_class(arg):
    """The dictionary class an argument name denotes, independently of the class's own tables: the library
    names every constructor argument after its AVP (snake_case of the class name without the AVP suffix); the
    single exception in the published tree is frozen above."""
    return ARG_NAME_EXCEPTIONS.get(arg) or "".join(p.capitalize() for p in arg.split("_")) + "AVP"


def avp_class_for(cls, name):
    c = cls.mandatory.get(name) or cls.optionals.get(name)
    return c.__name__ if c is not None else None


def value_for(avp_cname, variant):
    """-> Abs for the argument's AVP; variant 0 = minimal, 1 = another domain value."""
    e = absavp.BY_CLASS[avp_cname]
    if e["type"] == "Grouped":
        vs = absavp.grouped_variants(avp_cname)
        vs = [v for v in vs if v.value == "list"]
        return vs[min(variant, len(vs) - 1)]
    dom = absavp.scalar_domain(e)
    a = absavp.minimal(avp_cname)
    if variant == 0:
        return a
    for v, d in dom:
        if d != a.data and d:
            return Abs.of(avp_cname, v, d)
    return a


def ctor_arg(a):
    if a.members is not None:
        return [m.build() for m in a.members]
    return a.value


EXTRAS = [Abs.generic(9999, 0x00, None, b"\x01\x02\x03", "bytes"), Abs.generic(9998, 0xc0, 10415, b"\x09", "bytes")]


class Plan:
    """One constructor call: which arguments are supplied and with what."""

    def __init__(self, key, cls, supplied, variant, nextra, all_defaults=False, omit=None):
        self.key, self.cls, self.supplied, self.variant = key, cls, supplied, variant
        self.nextra, self.all_defaults, self.omit = nextra, all_defaults, omit

    def describe(self):
        return {"part": "typed", "cls": self.key, "supplied": sorted(self.supplied), "variant": self.variant,
                "extras": self.nextra, "all_defaults": self.all_defaults, "omit": self.omit,
                "passthrough": sorted(getattr(self, "passthrough", ()))}


def build(plan):
    """-> (message, expected AVP list [(name, Abs|None, avp_class_name)], header expectation)"""
    cls, key = plan.cls, plan.key
    ref = REFCMDS[key]
    kwargs = {}
    expected = []
    for name, default in params_of(cls):
        acn = avp_class_for(cls, name)
        required = default is None and name in cls.mandatory
        if name == plan.omit:
            continue
        if acn is None:
            # a declared argument without a table entry (drmp, ...) takes a ready-made AVP object, which belongs
            # where the constructor declares the argument
            if name in getattr(plan, "passthrough", ()):
                x = Abs.generic(9000 + len(expected), 0x00, None, name.encode()[:7], "bytes")
                kwargs[name] = x.build()
                expected.append((name, x, None))
            continue
        supply = required or (name in plan.supplied) or (default is not None and not plan.all_defaults)
        if ref.get("app_arg") == name:
            supply = True
        if supply:
            a = value_for(acn, plan.variant)
            if ref.get("app_arg") == name:
                app = ref["app"] if ref["app"] is not None else CALLER_APP
                a = Abs.of(acn, app.to_bytes(4, "big"), app.to_bytes(4, "big"))
            if ref.get("app_arg") == name and getattr(plan, "app_raw", None) is not None:
                kwargs[name] = plan.app_raw[0]         # the application given in another form (int / bytes)
                expected.append((name, None, acn))
            elif acn in absavp.GENERATES_FROM_STR and plan.variant == 0:
                kwargs[name] = "verif.example"
                expected.append((name, None, acn))
            else:
                kwargs[name] = ctor_arg(a)
                expected.append((name, a, acn))
        elif default is not None:
            expected.append((name, None, acn))     # built from the default: structure only
    extras = EXTRAS[:plan.nextra]
    for i, x in enumerate(extras):
        kwargs[f"extra_avp_{i}"] = x.build()
        expected.append((f"extra_avp_{i}", x, None))
    msg = cls(**kwargs)
    app = ref["app"]
    if app is None:
        app = CALLER_APP
        if not ref.get("app_arg"):
            # RFC 6733 RAA / ASA belong to whatever application the session belongs to: the constructor takes no
            # application argument and the caller assigns header.application_id (the suite does the same). The
            # message as built is a built message all the same: it must serialise to what its Message Length says
            # and decode again (the Application-ID / P clauses are judged once the application is assigned).
            msg._verif_asbuilt = asbuilt_roundtrip(msg)
            msg.header.application_id = app
    return msg, expected, (ref["code"], app, ref["request"])


def asbuilt_roundtrip(msg):
    """None when the message as built serialises consistently and decodes again, else a description."""
    try:
        dump = msg.dump()
        if msg.header.get_length() != len(dump) or len(dump) % 4:
            return f"Message Length {msg.header.get_length()} but {len(dump)} bytes serialised (header {dump[:20].hex()})"
        from bromelia.base import DiameterMessage
        back = DiameterMessage.load(dump)
        if len(back) != 1 or len(back[0].avps) != len(msg.avps):
            return "DiameterMessage.load(dump()) does not return the one message with its AVPs"
    except BaseException as e:  # noqa
        return f"{type(e).__name__}: {e}"
    return None


def judge(rep, plan):
    key = plan.key
    wit = plan.describe()
    try:
        msg, expected, (code, app, is_req) = build(plan)
    except BaseException as e:  # noqa
        if plan.omit:
            import bromelia.exceptions as X
            if type(e).__module__ != X.__name__:
                rep.violation(f"C09:{key}:omit:{plan.omit}:raises-{type(e).__name__}",
                              f"{key} without mandatory '{plan.omit}' raised non-library {type(e).__name__}: {e}", wit)
            return
        rep.violation(f"C09:{key}:build-raises-{type(e).__name__}",
                      f"{key}({sorted(plan.supplied)}) raised {type(e).__name__}: {e}", wit)
        return
    if plan.omit:
        rep.violation(f"C09:{key}:omit:{plan.omit}:accepted",
                      f"{key} built although mandatory argument '{plan.omit}' (no default) was omitted", wit)
        return
    h = msg.header
    errs = []
    if h.get_command_code() != code:
        errs.append(("command-code", f"command code {h.get_command_code()} != {code}"))
    if h.get_application_id() != app:
        errs.append(("application-id", f"Application-ID {h.get_application_id()} != {app}"))
    if h.is_request() != is_req:
        errs.append(("r-flag", f"R flag {h.is_request()} != {is_req}"))
    if h.is_proxiable() != (app != 0):
        errs.append(("p-flag", f"P flag {h.is_proxiable()} with Application-ID {app}"))
    if h.get_flags() & 0x3f & ~0x00 and (h.get_flags() & 0x3f):
        errs.append(("other-flags", f"flags byte 0x{h.get_flags():02x} has E/T/reserved bits"))
    avps = msg.avps
    if len(avps) != len(expected):
        errs.append(("avp-count", f"{len(avps)} AVPs, {len(expected)} arguments/defaults/extras expected: "
                                   f"{[type(a).__name__ for a in avps]} vs {[n for n, _a, _c in expected]}"))
    else:
        for i, (obj, (name, a, acn)) in enumerate(zip(avps, expected)):
            if acn is not None and type(obj).__name__ != acn:
                errs.append(("order-or-class", f"AVP {i} is {type(obj).__name__}, argument '{name}' maps to {acn}"))
                break
            if acn is not None and type(obj).__name__ != convention_class(name):
                errs.append((f"argument-class:{name}", f"argument '{name}' is carried by {type(obj).__name__}, the "
                                                       f"corresponding dictionary class is {convention_class(name)}"))
            if a is not None:
                try:
                    if obj.dump() != a.expected():
                        errs.append((f"value:{acn or 'extra'}", f"AVP {i} ('{name}') dumps {obj.dump().hex()}, "
                                                               f"expected {a.expected().hex()}"))
                except BaseException as e:  # noqa
                    errs.append((f"avp-dump-raises-{type(e).__name__}", f"AVP {i} ('{name}'): {e}"))
            elif acn in absavp.GENERATES_FROM_STR and name == "session_id" and (
                    name in plan.supplied or not plan.all_defaults):
                if not (obj.data or b"").startswith(b"verif.example;"):
                    errs.append(("session-id-prefix", f"Session-Id {obj.data!r} does not start with the identity"))
    # every mandatory AVP exactly once
    pnames = {n for n, _d in params_of(plan.cls)}
    for mname, mcls in plan.cls.mandatory.items():
        e = absavp.BY_CLASS.get(mcls.__name__)
        if e is None or mname not in pnames:
            # a name in the class's `mandatory` table that the constructor does not take cannot be
            # supplied as an argument (S6b AA-Answer lists destination_realm, which TS 29.273 does not
            # put in the answer): not an AVP of the command as built
            continue
        cnt = sum(1 for o in avps if o.get_code() == e["code"] and o.get_vendor_id() == e["vendor"])
        if cnt != 1:
            errs.append((f"mandatory-count:{mname}", f"mandatory {mcls.__name__} occurs {cnt} times"))
    if getattr(msg, "_verif_asbuilt", None):
        errs.append(("as-built-roundtrip", f"before the caller assigns the Application-ID: {msg._verif_asbuilt}"))
    # serialisation, length, round trip
    try:
        dump = msg.dump()
        if h.get_length() != len(dump) or len(dump) % 4:
            errs.append(("message-length", f"Message Length {h.get_length()} but {len(dump)} bytes serialised"))
        else:
            dec = refcodec.dec_msgs(dump)
            if len(dec) != 1 or len(dec[0][6]) != len(avps):
                errs.append(("roundtrip-ref", "reference decoder does not find the same AVPs"))
            if all(a is not None for _n, a, _c in expected) and len(avps) == len(expected):
                exp = refcodec.enc_msg((1, h.get_flags(), code, app, h.get_hop_by_hop(), h.get_end_to_end(),
                                        [a.abstract() for _n, a, _c in expected]))
                if exp != dump:
                    errs.append(("encoding", f"dump {dump.hex()[:80]}.. differs from the reference encoding "
                                             f"{exp.hex()[:80]}.."))
            from bromelia.base import DiameterMessage
            back = DiameterMessage.load(dump)
            if len(back) != 1 or back[0].dump() != dump:
                # the one tolerated difference is the recorded C02 finding (class-default flags)
                from checks.c02 import normalise
                norm = refcodec.enc_msg(dec[0][:6] + ([normalise(a) for a in refcodec.dec_msgs(
                    dump, recurse=lambda c, v: (absavp.BY_WIRE.get((v, c)) or {}).get("type") == "Grouped")[0][6]],))
                if len(back) != 1 or back[0].dump() != norm:
                    errs.append(("roundtrip-lib", "DiameterMessage.load(dump()).dump() differs"))
    except BaseException as e:  # noqa
        errs.append((f"dump-raises-{type(e).__name__}", f"{type(e).__name__}: {e}"))
    for k, text in dict(errs).items():
        rep.violation(f"C09:{key}:{k}", f"{key}(supplied={sorted(plan.supplied)}, extras={plan.nextra}, "
                      f"all_defaults={plan.all_defaults}): {text}", wit)


def subset_sizes(n, tier):
    if tier == "thorough":
        return list(range(n + 1)) if n <= 12 else sorted({0, 1, 2, 3, n - 1, n} & set(range(n + 1)))
    return sorted({0, 1, 2, n} & set(range(n + 1)))


def plans_for(key, cls, tier):
    optional = [name for name, default in params_of(cls)
                if default is None and name not in cls.mandatory and avp_class_for(cls, name)
                and REFCMDS[key].get("app_arg") != name]
    for size in subset_sizes(len(optional), tier):
        for sub in itertools.combinations(optional, size):
            for variant in (0, 1):
                for nextra in ((0, 1, 2) if size <= 1 else (0,)):
                    yield Plan(key, cls, set(sub), variant, nextra)
    yield Plan(key, cls, set(), 0, 0, all_defaults=True)
    yield Plan(key, cls, set(optional), 0, 2, all_defaults=True)
    tableless = [name for name, default in params_of(cls) if default is None and not avp_class_for(cls, name)]
    for names in [[t] for t in tableless] + ([tableless] if len(tableless) > 1 else []):
        for sub, nextra in ((set(), 0), (set(optional), 1)):
            pl = Plan(key, cls, sub, 0, nextra)
            pl.passthrough = set(names)
            yield pl
    for name, default in params_of(cls):
        if default is None and name in cls.mandatory:
            yield Plan(key, cls, set(), 0, 0, omit=name)


def part_class(rep, arg):
    key, tier = arg
    classes = discover()
    cls = classes[key]
    n = nontrivial = 0
    for plan in plans_for(key, cls, tier):
        judge(rep, plan)
        n += 1
        if plan.supplied or plan.nextra:
            nontrivial += 1
    rep.add(evaluations=n, distinct=nontrivial, constructor_calls=n)
    rep.sample({"class": key, "supplied": [], "extras": 0, "expect": REFCMDS[key]})


def table_facts(rep):
    classes = discover()
    n = 0
    for key in classes:
        n += 1
        if key not in REFCMDS:
            raise core.HarnessError(f"typed class {key} has no row in vk/ref/refcmds.json")
    for key, cls in classes.items():
        for table_name in ("mandatory", "optionals"):
            for arg, klass in getattr(cls, table_name).items():
                n += 1
                if klass.__name__ != convention_class(arg):
                    rep.violation(f"C09:{key}:argument-table:{arg}",
                                  f"{key}.{table_name}['{arg}'] is {klass.__name__}, the argument denotes "
                                  f"{convention_class(arg)}", {"part": "table", "cls": key})
    # the application given through the constructor as int or bytes, zero or not: P flag exactly when non-zero
    for key, ref in REFCMDS.items():
        if not ref.get("app_arg") or key not in classes:
            continue
        for raw, value in ((0, 0), (bytes(4), 0), (7, 7), ((7).to_bytes(4, "big"), 7)):
            n += 1
            plan = Plan(key, classes[key], set(), 0, 0)
            plan.app_raw = (raw,)
            try:
                msg, _e, _h = build(plan)
            except BaseException as e:  # noqa
                import bromelia.exceptions as X
                if not (value == 0 and type(e).__module__ == X.__name__):     # refusing application 0 is fine
                    rep.violation(f"C09:{key}:application-argument-raises-{type(e).__name__}", f"{key}({ref['app_arg']}={raw!r}): {e}",
                                  {"part": "table", "cls": key})
                continue
            got_app, p_flag = msg.header.get_application_id(), bool(msg.header.get_flags() & 0x40)
            if got_app != value or p_flag != (value != 0):
                rep.violation(f"C09:{key}:p-flag-vs-application:{type(raw).__name__}-{value}",
                              f"{key}({ref['app_arg']}={raw!r}): Application-ID {got_app}, P flag {p_flag}",
                              {"part": "table", "cls": key})
    # a constructor argument for which the dictionary has a class (by the naming convention) is a legitimate
    # argument: a plain value for it must be carried by that class, so it must be in one of the two tables
    from bromelia.base import DiameterAVP
    known = {}

    def walk(c):
        for sub in c.__subclasses__():
            known[sub.__name__] = sub
            walk(sub)
    walk(DiameterAVP)
    for key, cls in classes.items():
        names = [name for name, _d in params_of(cls)]
        for name in names:
            n += 1
            if name in cls.mandatory or name in cls.optionals or REFCMDS[key].get("app_arg") == name:
                continue
            if convention_class(name) in known:
                rep.violation(f"C09:{key}:argument-not-tabled:{name}",
                              f"{key}({name}=<plain value>) is rejected: the argument is in neither table although "
                              f"{convention_class(name)} exists", {"part": "table", "cls": key})
        for table_name in ("mandatory", "optionals"):
            for arg in getattr(cls, table_name):
                if arg not in names and table_name == "optionals" and not any(a == arg for a in names):
                    n += 1
                    if arg.endswith("_avp") and arg[:-4] in names:
                        rep.violation(f"C09:{key}:table-key-misspelt:{arg}",
                                      f"{key}.{table_name} has the key '{arg}' for the argument '{arg[:-4]}'",
                                      {"part": "table", "cls": key})
    for key, ref in REFCMDS.items():
        n += 1
        if key not in classes:
            rep.violation(f"C09:{key}:class-missing", f"typed command class {key} is gone", {"part": "table", "cls": key})
            continue
        if ref.get("pair"):
            if ref["pair"] not in classes:
                rep.violation(f"C09:{key}:pair-missing", f"answer class {ref['pair']} is gone", {"part": "table", "cls": key})
                continue
            try:
                rq, _e, _h = build(Plan(key, classes[key], set(), 0, 0))
                an, _e, _h = build(Plan(ref["pair"], classes[ref["pair"]], set(), 0, 0))
                if (rq.header.get_command_code(), rq.header.get_application_id()) != (
                        an.header.get_command_code(), an.header.get_application_id()):
                    rep.violation(f"C09:{key}:pair-disagrees",
                                  f"{key} is ({rq.header.get_command_code()}, {rq.header.get_application_id()}) "
                                  f"but its answer class is ({an.header.get_command_code()}, "
                                  f"{an.header.get_application_id()})", {"part": "table", "cls": key})
                if not rq.header.is_request() or an.header.is_request():
                    rep.violation(f"C09:{key}:pair-r-flags", "request/answer R flags wrong", {"part": "table", "cls": key})
            except BaseException as e:  # noqa
                rep.violation(f"C09:{key}:pair-build-raises-{type(e).__name__}", str(e), {"part": "table", "cls": key})
    rep.add(evaluations=n, distinct=n, table_facts=n)


def typed_encoding_cases(rep):
    """Used by C01: every typed class, all arguments supplied explicitly -> dump equals reference bytes."""
    classes = discover()
    n = 0
    for key, cls in classes.items():
        if key not in REFCMDS:
            continue
        optional = [name for name, default in params_of(cls)
                    if default is None and name not in cls.mandatory and avp_class_for(cls, name)
                    and REFCMDS[key].get("app_arg") != name]
        for supplied, variant, nextra in ((set(), 1, 0), (set(optional), 1, 2), (set(optional[:2]), 1, 1)):
            plan = Plan(key, cls, supplied, variant, nextra)
            n += 1
            try:
                msg, expected, (code, app, _r) = build(plan)
                dump = msg.dump()
            except BaseException as e:  # noqa
                rep.violation(f"C01:typed:{key}:raises-{type(e).__name__}", f"{key}: {e}", plan.describe())
                continue
            if any(a is None for _n, a, _c in expected):
                continue
            h = msg.header
            exp = refcodec.enc_msg((1, h.get_flags(), code, app, h.get_hop_by_hop(), h.get_end_to_end(),
                                    [a.abstract() for _n, a, _c in expected]))
            if exp != dump or h.get_length() != len(dump):
                rep.violation(f"C01:typed:{key}:encoding",
                              f"{key} dumps {dump.hex()[:100]}.. expected {exp.hex()[:100]}..", plan.describe())
    rep.add(evaluations=n, distinct=n, typed_cases=n)
    rep.sample({"typed_class": "etsi_3gpp_s6a.UpdateLocationRequest", "all_arguments_supplied": True})


def _shard(rep, arg):
    kind, payload = arg
    if kind == "class":
        part_class(rep, payload)
    else:
        table_facts(rep)


def run(report, tier, seed):
    keys = sorted(REFCMDS)
    k = seed % len(keys)
    keys = keys[k:] + keys[:k]
    shards = [("table", None)] + [("class", (key, tier)) for key in keys if key in discover()]
    core.run_shards(report, _shard, shards)
    return {"classes": len(keys)}


def replay(w):
    rep = core.Report("C09")
    if w["part"] == "table":
        table_facts(rep)
    else:
        classes = discover()
        plan = Plan(w["cls"], classes[w["cls"]], set(w["supplied"]), w["variant"], w["extras"],
                    w.get("all_defaults", False), w.get("omit"))
        if w.get("passthrough"):
            plan.passthrough = set(w["passthrough"])
        judge(rep, plan)
        try:
            msg, _e, _h = build(plan)
            print(msg, [type(a).__name__ for a in msg.avps])
        except BaseException as e:  # noqa
            print("build raised", type(e).__name__, e)
    for v in rep.violations.values():
        print(v.signature, "|", v.what)
    return bool(rep.violations)
