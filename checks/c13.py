# -*- coding: utf-8 -*-
"""C13 - Each request reaches its registered handler and always gets exactly one answer (HIST/ENUM).

Real Bromelia object + real in-process Workers; route tables = every non-empty subset of
{S6a, Gx} x {316, 317, 272} registered through the real @app.route decorator; request histories of
length <= 2 (quick) / <= 3 (thorough, on the 1-, 2- and 6-route tables) over (registered pair, handler
outcome) with stateful counting handlers, executed through the real callback_route.
"""
import itertools

from vk import core, inproc
from vk.ref import refcodec

LEVEL = "exploration"
RULE = ("all 63 non-empty route tables over {S6a, Gx} x {316, 317, 272} x all histories of <= 2 requests "
        "(quick) over (registered pair x 6 handler outcomes); thorough: histories of <= 3 on every table with "
        "<= 2 routes and on the full table; plus every builtin Exception subclass (and queue.Empty, a user-defined "
        "one) x 7 argument shapes {(), text, format-like text, bytes, None, two values, empty tuple} as handler "
        "outcome on two tables, every class of bromelia.exceptions likewise; every outcome (plus an answer lacking "
        "the Session-Id) x request shapes {full, without Origin-Host, without Origin-Realm, without both, without "
        "Session-Id}. A case is one history on one route table; distinct by "
        "construction; non-trivial = histories with at least one non-answer outcome or >= 2 requests")
ASSUMPTIONS = [
    "in-process Worker with a stand-in manager (vk/inproc.py); the histories dispatch sequentially; two (thorough "
    "three) requests in flight at once, with handlers that return a module-level answer or module-level AVP "
    "objects, are explored by the schedule explorer (every schedule with <= 1 deviation; the stand-in queues "
    "snapshot by pickling, as manager queues do)",
    "unregistered (application, command) pairs and handlers raising non-Exception BaseExceptions are "
    "outside the statement",
    "callback_route raising BromeliaException after it has sent the error answer is by design (it ends "
    "the dispatch thread)",
    "histories of one route table run back-to-back on one orchestrator object (so most start from a "
    "non-initial state); any violation is re-executed on a fresh object and reported with a self-contained "
    "witness, or with the earlier histories attached when it needs them",
]

S6A, GX = 16777251, 16777238
PAIRS = [(S6A, 316), (S6A, 317), (S6A, 272), (GX, 316), (GX, 317), (GX, 272)]
APP_SHORT = {S6A: "s6a", GX: "gx"}
OUTCOMES = ["answer", "none", "string", "request", "value-error", "key-error"]
# further outcomes / request shapes explored on two tables only (see _dispatch "shapes")
EXTRA_OUTCOMES = ["answer-no-sid", "exc:lib.DiameterMessageError:1", "exc:lib.DataTypeError:0"]
REQUEST_SHAPES = ["full", "no-origin-host", "no-origin-realm", "no-origin", "no-session-id"]


EXC_ARGS = [(), ("handler failed",), ("{0} {x} %s %d {",), (b"\xff\xfe",), (None,), ("a", 2), ((),)]


class HandlerFailure(Exception):
    """A user-defined exception whose text is empty."""
    def __str__(self):
        return ""


def exception_classes():
    """Every 'standard exception' a handler can raise: the builtin Exception subclasses (BaseException-only
    classes are outside the statement), queue.Empty and a user-defined subclass."""
    import builtins
    import queue
    out = {}
    for name in sorted(dir(builtins)):
        obj = getattr(builtins, name)
        if isinstance(obj, type) and issubclass(obj, Exception):
            out[obj.__name__] = obj
    out["Empty"] = queue.Empty
    out["HandlerFailure"] = HandlerFailure
    # the library's own errors (what a handler gets when it builds a typed answer wrongly); they derive from
    # BaseException, not Exception
    import bromelia.exceptions as X
    for name, obj in sorted(vars(X).items()):
        if isinstance(obj, type) and issubclass(obj, BaseException) and obj.__module__ == X.__name__:
            out["lib." + name] = obj
    return out


def exception_outcomes():
    out = []
    for name, cls in exception_classes().items():
        for i, args in enumerate(EXC_ARGS):
            try:
                cls(*args)
            except BaseException:  # noqa  (e.g. UnicodeDecodeError needs five arguments)
                continue
            out.append(f"exc:{name}:{i}")
    return out


def sig_outcome(outcome):
    if outcome.startswith("exc:lib."):
        return f"library-exception-args{outcome.rsplit(':', 1)[1]}"
    return f"exception-args{outcome.rsplit(':', 1)[1]}" if outcome.startswith("exc:") else outcome


class Recorder:
    def __init__(self):
        self.calls = []


def make_handler(rec, pair, outcome_of):
    def handler(request):
        rec.calls.append(pair)
        outcome = outcome_of()
        from bromelia.base import DiameterAnswer, DiameterRequest
        import bromelia.avps as A
        if outcome == "answer":
            return DiameterAnswer(command_code=pair[1], application_id=pair[0],
                                  avps=[A.SessionIdAVP(b"placeholder;0;0"), A.ResultCodeAVP(2001),
                                        A.OriginHostAVP("handler.example"), A.OriginRealmAVP("example")])
        if outcome == "answer-no-sid":
            return DiameterAnswer(command_code=pair[1], application_id=pair[0],
                                  avps=[A.ResultCodeAVP(2001), A.OriginHostAVP("handler.example"), A.OriginRealmAVP("example")])
        if outcome == "none":
            return None
        if outcome == "string":
            return "not an answer"
        if outcome == "request":
            return DiameterRequest(command_code=pair[1], application_id=pair[0])
        if outcome == "value-error":
            raise ValueError("handler failed")
        if outcome == "key-error":
            raise KeyError("handler failed")
        if outcome.startswith("exc:"):
            _x, name, i = outcome.split(":")
            raise exception_classes()[name](*EXC_ARGS[int(i)])
        raise AssertionError(outcome)
    # route functions are told apart by what they are, not by what they are called: every second table is
    # registered with functions that all bear the same name (two modules each defining `handle`, say)
    handler.__name__ = f"route_{pair[0]}_{pair[1]}" if NAMING[0] == "distinct" else "handle"
    return handler


NAMING = ["distinct"]


def make_request(pair, idx, shape="full"):
    from bromelia.base import DiameterRequest
    import bromelia.avps as A
    app, code = pair
    sid = f"req{idx}.example;{idx + 1};{app % 97}".encode()
    avps = [A.SessionIdAVP(sid), A.OriginHostAVP(f"peer{idx}.example"),
            A.OriginRealmAVP(f"realm{idx}.peer"), A.DestinationRealmAVP("realm.local")]
    drop = {"full": (), "no-origin-host": (1,), "no-origin-realm": (2,), "no-origin": (1, 2), "no-session-id": (0,)}[shape]
    avps = [a for i, a in enumerate(avps) if i not in drop]
    req = DiameterRequest(command_code=code, application_id=app, avps=avps)
    req.header.hop_by_hop = 0x1000 + idx
    req.header.end_to_end = 0xf0000000 + idx
    return req


def fresh_app(table):
    NAMING[0] = "same" if (len(table) + sum(p[1] for p in table)) % 2 else "distinct"
    app, workers = inproc.make_bromelia(["s6a", "gx"])
    rec = Recorder()
    current = {"outcome": None}
    for pair in table:
        app.route(pair[0].to_bytes(4, "big"), pair[1].to_bytes(3, "big"))(make_handler(rec, pair, lambda: current["outcome"]))
    return app, workers, rec, current


def run_history(rep, table, history, ctx=None, earlier=None):
    """table: tuple of pairs registered; history: tuple of (pair, outcome). ctx: a (reused) app built by
    fresh_app(table); when a violation shows up on a reused app the history is re-run on a fresh one so
    that the recorded witness replays on its own."""
    if ctx is None:
        _run_history_on(rep, table, history, fresh_app(table), None)
        return
    reused = core.Report(rep.prop)
    _run_history_on(reused, table, history, ctx, None)
    if not reused.violations:
        return
    probe = core.Report(rep.prop)
    _run_history_on(probe, table, history, fresh_app(table), None)
    if probe.violations:
        for v in probe.violations.values():
            rep.violation(v.signature, v.what, v.witness)
    else:
        for v in reused.violations.values():
            w = dict(v.witness, earlier_histories=[[[list(st[0])] + list(st[1:]) for st in h] for h in (earlier or [])[-30:]])
            rep.violation("C13:after-earlier-histories:" + v.signature[4:], v.what, w)


def _run_history_on(rep, table, history, ctx, _unused):
    from bromelia.exceptions import BromeliaException
    app, workers, rec, current = ctx
    wit = {"table": [list(p) for p in table], "history": [[list(st[0])] + list(st[1:]) for st in history]}
    tsig = f"routes{len(table)}"
    for idx, step in enumerate(history):
        pair, outcome = step[0], step[1]
        shape = step[2] if len(step) > 2 else "full"
        current["outcome"] = outcome
        osig = sig_outcome(outcome) + ("" if shape == "full" else f":request-{shape}")
        rec.calls.clear()
        req = make_request(pair, idx, shape)
        raised = None
        try:
            app.callback_route(req)
        except BromeliaException as e:
            raised = e
        except BaseException as e:  # noqa
            import bromelia.exceptions as X
            ename = "library-error" if type(e).__module__ == X.__name__ else type(e).__name__
            rep.violation(f"C13:dispatch-raises-{ename}:{osig}",
                          f"callback_route raised {type(e).__name__}: {e} (step {idx}, {pair}, {outcome})", wit)
            for w in workers.values():
                inproc.drain(w)
            return
        if rec.calls != [pair]:
            rep.violation(f"C13:wrong-handler:{tsig}:{'none' if not rec.calls else 'other' if len(rec.calls) == 1 else 'several'}",
                          f"request for {pair} ran handlers {rec.calls} (step {idx})", wit)
        sent = {short: inproc.drain(w) for short, w in workers.items()}
        own, other = APP_SHORT[pair[0]], [s for s in workers if s != APP_SHORT[pair[0]]][0]
        if sent[other]:
            rep.violation(f"C13:answer-on-other-application:{osig}",
                          f"{len(sent[other])} message(s) queued on the {other} worker for a {own} request", wit)
        if len(sent[own]) != 1:
            rep.violation(f"C13:{len(sent[own])}-answers:{osig}",
                          f"{len(sent[own])} answers sent for one request (outcome {outcome}, step {idx})", wit)
            continue
        ans = sent[own][0]
        try:
            dec = refcodec.dec_msgs(ans.dump())[0]
        except BaseException as e:  # noqa
            rep.violation(f"C13:answer-undumpable:{osig}", f"{type(e).__name__}: {e}", wit)
            continue
        version, flags, code, appid, hbh, e2e, avps = dec
        errs = []
        if flags & 0x80:
            errs.append(("is-request", "the message sent is a request"))
        if (appid, code) != pair:
            errs.append(("answer-command", f"answer is ({appid}, {code}) for request {pair}"))
        if hbh != req.header.get_hop_by_hop() or e2e != req.header.get_end_to_end():
            errs.append(("identifiers", f"answer identifiers {hbh:#x}/{e2e:#x}"))
        byc = {}
        for c, f, v, d in avps:
            byc.setdefault((c, v), []).append(d)
        want_sid = [req.session_id_avp.data] if req.has_avp("session_id_avp") else None
        if want_sid is not None and byc.get((263, None)) != want_sid:
            errs.append(("session-id", f"Session-Id {byc.get((263, None))!r}, the request's is {want_sid!r}"))
        if outcome not in ("answer", "answer-no-sid"):
            cfg = app.associations[pair[0].to_bytes(4, "big")].app.config
            want = {268: (5012).to_bytes(4, "big"), 264: cfg["LOCAL_NODE_HOSTNAME"].encode(),
                    296: cfg["LOCAL_NODE_REALM"].encode()}
            # the requester as destination, as far as the request names it
            if req.has_avp("origin_host_avp"):
                want[293] = req.origin_host_avp.data
            if req.has_avp("origin_realm_avp"):
                want[283] = req.origin_realm_avp.data
            names = {268: "result-code", 264: "origin-host", 296: "origin-realm", 293: "destination-host",
                     283: "destination-realm"}
            for c, w in want.items():
                if byc.get((c, None)) != [w]:
                    errs.append((f"error-answer:{names[c]}", f"{names[c]} is {byc.get((c, None))!r}, expected {w!r}"))
            if raised is None:
                errs.append(("no-exception-after-error-answer", "informational only")) if False else None
        else:
            if byc.get((268, None)) != [(2001).to_bytes(4, "big")]:
                errs.append(("handler-answer-replaced", f"Result-Code {byc.get((268, None))!r}"))
        if ans.header.get_length() != len(ans.dump()):
            errs.append(("message-length", "Message Length differs from the serialised size"))
        for k, text in dict(errs).items():
            rep.violation(f"C13:{k}:{osig}", f"step {idx} {pair} {outcome}: {text}", wit)


# ------------------------------------------------------------------------------------------------------------
# concurrent dispatch (schedule explorer): two requests in flight at once, handlers that reuse objects
# ------------------------------------------------------------------------------------------------------------

def _concurrent_scenario():
    import pickle
    from vk.vrt import explore, shims
    from checks import c14

    class SnapshotQueue(shims.Queue):
        """A manager Queue hands a pickled copy to the other process: what is put is a snapshot."""
        def put(self, item, block=True, timeout=None):
            super().put(pickle.loads(pickle.dumps(item)), block, timeout)
        put_nowait = put

    class SnapshotManager(c14.VrtManager):
        def Queue(self):
            return SnapshotQueue()

    class ConcurrentDispatch(explore.Scenario):
        name = "concurrent-dispatch"
        horizon = 60.0
        max_points = 20000
        idle_window = 8.0
        auto_shared = True
        shared = frozenset({"pending_answers", "msg", "routes", "associations", "recv_queues", "testing_answer"})

        def driver(self, rt):
            import bromelia.bromelia as BB
            from bromelia.base import DiameterAnswer
            import bromelia.avps as A
            mode = self.params["handler"]
            BB.BROMELIA_TICKER = 0.25
            app, workers = inproc.make_bromelia(["s6a"], manager=SnapshotManager(), zero_timers=False)
            BB.SEND_THRESHOLD_TICKER = 0.05
            BB.PROCESS_TIMER = 0.001
            worker = workers["s6a"]
            outbox = shims.Queue()
            worker.app = c14.StubConnection(worker.app.config, outbox)
            pair = (S6A, 316)
            static_answer = DiameterAnswer(command_code=316, application_id=S6A,
                                           avps=[A.SessionIdAVP(b"static;0;0"), A.ResultCodeAVP(2001),
                                                 A.OriginHostAVP("handler.example"), A.OriginRealmAVP("example")])
            static_avps = [A.SessionIdAVP(b"static;0;0"), A.ResultCodeAVP(2001), A.OriginHostAVP("handler.example"),
                           A.OriginRealmAVP("example")]

            def handler(request):
                if mode == "static-answer":      # a module-level answer returned for every request
                    return static_answer
                if mode == "static-avps":        # a fresh answer built from module-level AVP objects
                    return DiameterAnswer(command_code=316, application_id=S6A, avps=list(static_avps))
                return DiameterAnswer(command_code=316, application_id=S6A,
                                      avps=[A.SessionIdAVP(b"fresh;0;0"), A.ResultCodeAVP(2001),
                                            A.OriginHostAVP("handler.example"), A.OriginRealmAVP("example")])
            handler.__name__ = "route_static"
            app.route(pair[0].to_bytes(4, "big"), pair[1].to_bytes(3, "big"))(handler)
            reqs = [make_request(pair, i) for i in range(self.params.get("n", 2))]
            rt.observations["requests"] = [(r.header.get_hop_by_hop(), r.header.get_end_to_end(), r.session_id_avp.data.hex())
                                           for r in reqs]
            T = shims.Thread
            T(target=worker.send_handler, name="send_handler").start()
            T(target=app.main, name="bromelia_main").start()
            rt.begin_exploration()

            def peer():
                for r in reqs:
                    worker.notify_incoming_message(r)
            T(target=peer, name="peer").start()
            got = []
            tm = shims.make_time()
            deadline = rt.now + rt.stall_time + 12.0
            while len(got) < len(reqs) and rt.now < deadline:
                while outbox._q:
                    got.append(outbox._q.popleft())
                tm.sleep(0.25)
            tm.sleep(rt.stall_time + 2.0)         # anything that comes late (a second answer) is seen too
            while outbox._q:
                got.append(outbox._q.popleft())
            out = []
            for m in got:
                sid = m.session_id_avp.data.hex() if m.has_avp("session_id_avp") else None
                out.append((m.header.get_hop_by_hop(), m.header.get_end_to_end(), sid,
                            m.header.get_length() == len(m.dump())))
            rt.observations["answers"] = out
            rt.stop()

        def oracle(self, rt):
            reqs, answers = rt.observations.get("requests", []), rt.observations.get("answers")
            mode = self.params["handler"]
            if answers is None:
                return [(f"C13:concurrent:{rt.verdict}:{mode}", f"dispatch did not finish: {rt.verdict}")]
            errs = []
            for hbh, e2e, sid in reqs:
                mine = [a for a in answers if a[0] == hbh]
                if len(mine) != 1:
                    errs.append((f"C13:concurrent:{len(mine)}-answers:{mode}",
                                 f"request {hbh:#x} got {len(mine)} answer(s); sent: {answers}"))
                    continue
                if mine[0][1] != e2e or mine[0][2] != sid:
                    errs.append((f"C13:concurrent:foreign-identity:{mode}",
                                 f"the answer to {hbh:#x} carries End-to-End {mine[0][1]:#x} / Session-Id "
                                 f"{bytes.fromhex(mine[0][2] or '')!r}, the request's are {e2e:#x} / {bytes.fromhex(sid)!r}"))
                if not mine[0][3]:
                    errs.append((f"C13:concurrent:message-length:{mode}", f"the answer to {hbh:#x} has a stale Message Length"))
            for t in rt.crashed_threads():
                if t.library and not isinstance(t.exc, BaseException.__class__) and type(t.exc).__name__ != "BromeliaException":
                    errs.append((f"C13:concurrent:thread-crashed:{type(t.exc).__name__}:{mode}", f"{t.name}: {t.exc}"))
            return errs

        def outcome(self, rt):
            return (rt.verdict, tuple(sorted((a[0], a[2]) for a in rt.observations.get("answers") or [])))
    return ConcurrentDispatch


def _sched_shard(rep, arg):
    from vk.vrt import explore
    params, bound, k, n = arg
    scn = _concurrent_scenario()(**params)
    stats = {"executions": 0, "points": 0}
    if k == 0:
        base = explore.selfcheck_determinism(scn)
        explore.run_one(scn, (), rep, stats)
        rep.sample({"scenario": scn.name, "params": params, "deviation_bound": bound, "points": len(base.points)})
    else:
        base = explore.execute(scn)
    if bound >= 1:
        firsts = explore.successors(base, ())
        explore.explore_subtree(scn, firsts[k::n], bound, rep, stats)
    rep.add(evaluations=stats["executions"], distinct=stats["executions"], concurrent_executions=stats["executions"])


def tables():
    for r in range(1, len(PAIRS) + 1):
        for t in itertools.combinations(PAIRS, r):
            yield t


def histories(table, maxlen):
    steps = [(p, o) for p in table for o in OUTCOMES]
    for ln in range(1, maxlen + 1):
        for h in itertools.product(steps, repeat=ln):
            yield h


def part(rep, arg):
    tabs, maxlen = arg
    n = nontrivial = 0
    for t in tabs:
        ctx, earlier = fresh_app(t), []
        for h in histories(t, maxlen):
            run_history(rep, t, h, ctx, earlier)
            earlier.append(h)
            n += 1
            if len(h) > 1 or h[0][1] != "answer":
                nontrivial += 1
    rep.add(evaluations=n, distinct=nontrivial, histories=n, route_tables=len(tabs))
    if tabs:
        rep.sample({"route_table": [list(p) for p in tabs[0]], "history": [[list(tabs[0][0]), "value-error"], [list(tabs[0][-1]), "answer"]]})


def _shard(rep, arg):
    part(rep, arg)


def run(report, tier, seed):
    all_tables = list(tables())
    k = seed % len(all_tables)
    all_tables = all_tables[k:] + all_tables[:k]
    shards = []
    for t in all_tables:
        if tier == "thorough" and len(t) <= 2:
            shards.append(([t], 3))
        else:
            shards.append(([t], 2))
    if tier == "thorough":
        # the full table with histories of 3, split by first step
        shards.append(([tuple(PAIRS)], 3)) if False else None
        full = tuple(PAIRS)
        steps = [(p, o) for p in full for o in OUTCOMES]
        for first in steps:
            shards.append(("full3", first))
    # every standard exception class x argument shape, as first request of a history (followed by a normal one)
    shards.append(("shapes", None))
    excs = exception_outcomes()
    for i in range(0, len(excs), 40):
        shards.append(("exceptions", excs[i:i + 40]))
    core.run_shards(report, _dispatch, shards)
    conc = [(dict(handler="fresh"), 1), (dict(handler="static-answer"), 1), (dict(handler="static-avps"), 1)]
    if tier == "thorough":
        conc += [(dict(handler="static-answer", n=3), 1), (dict(handler="static-avps"), 2)]
    sshards = []
    for params, bound in conc:
        m = 8 if bound == 1 else 32
        sshards += [(params, bound, k, m) for k in range(m)]
    core.run_shards(report, _sched_shard, sshards, fresh_process=True)
    return {"route_tables": len(all_tables), "exception_outcomes": len(excs)}


def _dispatch(rep, arg):
    if arg[0] == "shapes":
        # every handler outcome x every request shape (and the extra outcomes on full requests), each followed by
        # a normal request
        n = 0
        for table in (((S6A, 316),), ((S6A, 316), (GX, 272))):
            ctx, earlier = fresh_app(table), []
            steps = [(o, sh) for o in OUTCOMES + EXTRA_OUTCOMES for sh in REQUEST_SHAPES]
            for o, sh in steps:
                for h in (((table[0], o, sh),), ((table[-1], o, sh), (table[0], "answer"))):
                    run_history(rep, table, h, ctx, earlier)
                    earlier.append(h)
                    n += 1
        rep.add(evaluations=n, distinct=n, histories=n)
        return
    if arg[0] == "exceptions":
        n = 0
        for table in (((S6A, 316),), ((S6A, 316), (GX, 272))):
            ctx, earlier = fresh_app(table), []
            for o in arg[1]:
                for h in (((table[0], o),), ((table[-1], o), (table[0], "answer"))):
                    run_history(rep, table, h, ctx, earlier)
                    earlier.append(h)
                    n += 1
        rep.add(evaluations=n, distinct=n, histories=n)
        return
    if arg[0] == "full3":
        first = arg[1]
        full = tuple(PAIRS)
        steps = [(p, o) for p in full for o in OUTCOMES]
        n = 0
        ctx, earlier = fresh_app(full), []
        for second in steps:
            for third in steps:
                run_history(rep, full, (first, second, third), ctx, earlier)
                earlier.append((first, second, third))
                n += 1
        rep.add(evaluations=n, distinct=n, histories=n)
    else:
        part(rep, arg)


def replay(w):
    if "scenario" in w:
        from vk.vrt import explore
        scn = _concurrent_scenario()(**w["params"])
        rt = explore.execute(scn, {int(i): int(a) for i, a in w["choices"]})
        errs = scn.oracle(rt)
        for p in rt.points[(rt.explore_from or 0):]:
            if p.chosen:
                print(f"  {p.thread:16s} {p.kind:12s} {p.label:28s} chosen={p.chosen} of {p.cands}")
        print("requests", rt.observations.get("requests")); print("answers ", rt.observations.get("answers"))
        for sig, text in errs:
            print(sig, "|", text)
        return bool(errs)
    rep = core.Report("C13")
    table = tuple(tuple(p) for p in w["table"])
    history = tuple((tuple(st[0]),) + tuple(st[1:]) for st in w["history"])
    if w.get("earlier_histories"):
        ctx = fresh_app(table)
        for h in w["earlier_histories"]:
            _run_history_on(core.Report("C13"), table, tuple((tuple(st[0]),) + tuple(st[1:]) for st in h), ctx, None)
        _run_history_on(rep, table, history, ctx, None)
    else:
        run_history(rep, table, history)
    for v in rep.violations.values():
        print(v.signature, "|", v.what)
    return bool(rep.violations)
