# -*- coding: utf-8 -*-
"""C10 - The AVP dictionary is unambiguous and every class enforces its declared type (ENUM).

Dictionary-level facts (function-ness of (vendor, code) -> class, wire identity equal to the frozen
reference dictionary, agreement with docs/list-of-avps.md and the IANA table) plus, for every class,
construction from every value of an in-domain and an out-of-domain alphabet: the constructor either
raises or yields an AVP whose dump() is a well-formed encoding of that value.
"""
import datetime
import os
import re

from vk import absavp, core
from vk.ref import refcodec

LEVEL = "exploration"
RULE = ("every dictionary class (discovered from DiameterAVP.__subclasses__()) x every value of its "
        "type's in-domain alphabet and of a shared out-of-domain alphabet (wrong Python types, wrong "
        "widths, unknown enumerators, bad address families/widths, non-aaa URIs, Grouped lists missing "
        "each mandatory member, non-AVP list elements); plus the dictionary-level facts, one evaluation "
        "each. A case is one (class, value); distinct by construction; non-trivial = every case whose "
        "value is not the first in-domain one")
ASSUMPTIONS = [
    "vk/ref/refdict.json is the published dictionary (frozen from the pinned tree after cross-reading "
    "docs/list-of-avps.md, definitions.py and the RFC/TS numbers; default flags come from the pinned tree "
    "because the published list carries no flags)",
    "a constructor that raises ANY exception satisfies 'fails with an exception'",
    "negative integers given to Unsigned64 classes and values >= 2^63 are not judged (two's complement "
    "of a 64-bit quantity; Value-Digits is Integer64 in RFC 4006)",
    "UTF-8 validity of UTF8String/DiameterIdentity data is not demanded by the statement",
]

DOC_EXCEPTIONS = {
    "PriorityLevelAVP": "doc row says code 1406; class and 3GPP TS 29.212 say 1046",
    "FlowDescriptionAVP": "doc row says IPFilterRule; implemented as its base OctetString",
    "FramedIpAddressAVP": "doc row says Address; RFC 7155 carries 4 packed octets (OctetString)",
}

WIDTH = {"Unsigned32": 4, "Integer32": 4, "Enumerated": 4, "Unsigned64": 8, "Time": 4}


def _tz(h, m=0):
    return datetime.timezone(datetime.timedelta(hours=h, minutes=m))


AWARE_INSTANTS = [datetime.datetime(2020, 1, 1, 12, 0, 0, tzinfo=datetime.timezone.utc),
                  datetime.datetime(2020, 1, 1, 12, 0, 0, tzinfo=_tz(2)),
                  datetime.datetime(2020, 1, 1, 12, 0, 0, tzinfo=_tz(-5, -30)),
                  datetime.datetime(1999, 12, 31, 23, 59, 59, tzinfo=_tz(14)),
                  datetime.datetime(2030, 6, 15, 0, 0, 1, tzinfo=_tz(-12))]


class Junk:
    def __repr__(self):
        return "<Junk object>"


def out_of_domain(entry):
    """Values that have no encoding in the class's type (or only by accident)."""
    t = entry["type"]
    vals = [None, 1.5, [], ["x"], (1, 2), {"a": 1}, Junk()]
    if t in ("Unsigned32", "Unsigned64", "Integer32", "Enumerated", "Time"):
        w = WIDTH[t]
        vals += ["abc", "abcd", "abcdefgh", "", b"", -1, 2 ** 64, 2 ** 32 if w == 4 else 2 ** 65]
        vals += [bytes(range(1, n + 1)) for n in range(1, 10) if n != w]
        vals += [[1, 2, 3, 4], ("a", "b", "c", "d"), bytearray(b"\x00" * w)]
        if t == "Enumerated":
            known = set(entry["values"])
            for h in ("7fffffff", "000003e7", "ffffffff", "00000063"):
                if h not in known:
                    vals.append(bytes.fromhex(h))
            vals += [0, 1]
        if t == "Time":
            vals += [0, 3786825600, "2020-01-01", datetime.date(2020, 1, 1)]
    elif t == "Address":
        # ints are not in the alphabet: the ipaddress module reads an int as an address by design
        vals += ["1.2.3", "256.1.1.1", "1.2.3.4.5", "a.b.c.d", "", ":::", "12345::",
                 b"", b"\x00", b"\x00\x01", b"\x00\x01\x01\x02\x03", b"\x00\x01\x01\x02\x03\x04\x05",
                 b"\x00\x02" + b"\x01" * 15, b"\x00\x02" + b"\x01" * 17, b"\x00\x02\x01\x02\x03\x04",
                 b"\x00\x03\x01\x02\x03\x04", b"\x00\x00\x01\x02\x03\x04", b"\xff\xff" + b"\x00" * 4,
                 b"\x01\x02\x03\x04", b"\x00\x08abcdefgh"]
    elif t == "DiameterURI":
        vals += ["http://host.example.com", "host.example.com", "aaa:/host.example.com", "aaa//x", "",
                 "ftp://host.example.com:21", "aaat://host.example.com", b"http://host.example.com",
                 b"\xff\xfe\x00", "aaa://", 7]
    elif t == "Grouped":
        vals += ["abc", 5, b"\x00\x01", b"garbage-not-avps", [1, 2], ["a"], [None], [b"\x00" * 8]]
    else:  # OctetString / UTF8String / DiameterIdentity
        if entry.get("special") == "ipv4_packed":
            vals += ["::1", "1.2.3", "a.b.c.d", b"abc", b"", b"12345", b"\x00\x01\x0a\x00\x00\x01"]
        elif entry.get("special") == "tbcd_from_number":
            vals += []
        else:
            vals += [5, 0, -1, 2 ** 40]
    return vals


def wellformed(entry, data):
    """Is `data` (bytes) a well-formed value of the declared type? -> None or a reason string."""
    t = entry["type"]
    if t in WIDTH and len(data) != WIDTH[t]:
        return f"{t} data is {len(data)} bytes wide, must be {WIDTH[t]}"
    if t == "Enumerated" and data.hex() not in entry["values"]:
        return f"enumerator {data.hex()} not in the class's list"
    if t == "Address":
        if len(data) < 2:
            return "Address without family"
        fam = int.from_bytes(data[:2], "big")
        if fam == 1 and len(data) != 6:
            return f"IPv4 Address of {len(data) - 2} octets"
        if fam == 2 and len(data) != 18:
            return f"IPv6 Address of {len(data) - 2} octets"
        if fam not in (1, 2):
            return f"Address family {fam}"
    if t == "DiameterURI" and not (data.startswith(b"aaa://") or data.startswith(b"aaas://")):
        return "DiameterURI without aaa/aaas scheme"
    if entry.get("special") == "ipv4_packed" and len(data) != 4:
        return f"packed IPv4 of {len(data)} octets"
    return None


def value_repr(v):
    r = repr(v)
    return r if len(r) < 60 else r[:57] + "..."


def vclass(v):
    """Coarse class of an offending value for the violation signature."""
    if v is None:
        return "None"
    if isinstance(v, bytes):
        return f"bytes{len(v)}"
    if isinstance(v, str):
        return f"str{len(v)}" if len(v) < 9 else "str"
    if isinstance(v, int):
        return "int-neg" if v < 0 else "int"
    return type(v).__name__


def judge(rep, entry, klass, value, expected, kind):
    cname = entry["class"]
    t = entry["type"]
    wit = {"part": "value", "cls": cname, "value": value_repr(value), "kind": kind}
    try:
        obj = klass(value)
    except BaseException:  # noqa
        rep.count(f"raised_{kind}")
        return
    rep.count(f"accepted_{kind}")
    try:
        dump = obj.dump()
        parsed = refcodec.dec_avps(dump)
    except BaseException as e:  # noqa
        rep.violation(f"C10:{t}:{kind}:accepted-but-undumpable:{vclass(value)}",
                      f"{cname}({value_repr(value)}) was accepted but its dump() is not an AVP: "
                      f"{type(e).__name__}: {e}", wit)
        return
    if len(parsed) != 1:
        rep.violation(f"C10:{t}:{kind}:not-one-avp:{vclass(value)}",
                      f"{cname}({value_repr(value)}).dump() holds {len(parsed)} AVPs", wit)
        return
    code, flags, vendor, data = parsed[0]
    if code != entry["code"] or vendor != entry["vendor"] or bool(flags & 0x80) != (entry["vendor"] is not None):
        rep.violation(f"C10:{cname}:identity", f"{cname}({value_repr(value)}) dumps code={code} vendor={vendor} "
                      f"flags=0x{flags:02x}; dictionary says code={entry['code']} vendor={entry['vendor']}", wit)
        return
    if t == "Grouped":
        # mandatory members must be present
        have = {(c, v) for c, _f, v, _d in refcodec.dec_avps(data)} if data else set()
        for mname in entry["mandatory"].values():
            me = absavp.BY_CLASS[mname]
            if (me["code"], me["vendor"]) not in have:
                rep.violation(f"C10:Grouped:{kind}:missing-mandatory-accepted:{cname}",
                              f"{cname}({value_repr(value)}) accepted without mandatory {mname}", wit)
                return
    reason = wellformed(entry, data)
    if reason is not None:
        rep.violation(f"C10:{t}:{kind}:malformed-accepted:{vclass(value)}",
                      f"{cname}({value_repr(value)}) silently yields a malformed AVP ({reason}): {dump.hex()}", wit)
        return
    if expected is not None and data != expected:
        rep.violation(f"C10:{t}:{kind}:wrong-encoding:{vclass(value)}",
                      f"{cname}({value_repr(value)}) carries {data.hex()}, encoding of that value is "
                      f"{expected.hex()}", wit)
        return
    if expected is None and kind == "out" and t not in ("OctetString", "UTF8String", "DiameterIdentity", "Grouped"):
        # a fixed-format type accepted a value that has no encoding in it, yet produced well-formed bytes:
        # tolerated only when the bytes are literally the value (bytes-like of the right width)
        if not (isinstance(value, (bytes, bytearray)) and bytes(value) == data):
            if not (t == "Unsigned64" and isinstance(value, int)):
                rep.violation(f"C10:{t}:out:silently-coerced:{vclass(value)}",
                              f"{cname}({value_repr(value)}) has no encoding as {t} but was accepted as "
                              f"{data.hex()}", wit)


def part_classes(rep, arg):
    import bromelia.avps as A
    names, wide = arg
    n = nontrivial = 0
    for cname in names:
        e = absavp.BY_CLASS[cname]
        klass = absavp.lib_class(cname)
        if klass is None:
            continue   # reported by the dictionary-level part
        if e["type"] == "Grouped":
            for a in absavp.grouped_variants(cname, wide):
                try:
                    members = [m.build() for m in a.members] if a.value == "list" else refcodec.enc_avps(
                        [m.abstract() for m in a.members])
                except BaseException:  # noqa
                    continue
                judge(rep, e, klass, members, refcodec.enc_avps([m.abstract() for m in a.members]), "in")
                n += 1
            # lists missing each mandatory member
            mand = list(e["mandatory"].values())
            for skip in range(len(mand)):
                members = [absavp.minimal(m, 1).build() for i, m in enumerate(mand) if i != skip]
                extra = absavp.Abs.generic(9999, 0, None, b"\x01", "bytes").build()
                judge(rep, e, klass, members + [extra], None, "out")
                # ... and with an impostor in the missing member's place: the same code under a foreign Vendor-ID
                me = absavp.BY_CLASS[mand[skip]]
                if (99999, me["code"]) not in absavp.BY_WIRE:
                    imp = absavp.Abs.generic(me["code"], 0x80, 99999, b"\x00\x00\x00\x01", "bytes")
                    judge(rep, e, klass, members + [imp.build()], None, "out")
                    judge(rep, e, klass, refcodec.enc_avps([absavp.minimal(m, 1).abstract() for i, m in enumerate(mand) if i != skip]
                                                           + [imp.abstract()]), None, "out")
                    n += 2
                judge(rep, e, klass, refcodec.enc_avps([absavp.minimal(m, 1).abstract() for i, m in enumerate(mand) if i != skip]
                                                       + [(9999, 0, None, b"\x01")]), None, "out")
                n += 2
        else:
            for v, d in absavp.scalar_domain(e, wide):
                judge(rep, e, klass, v, d, "in")
                n += 1
            if e["type"] == "Time":
                # instants given with a UTC offset: rejected, or encoded as that instant (never as the wall-clock
                # reading with the offset dropped)
                for v in AWARE_INSTANTS:
                    secs = int((v - datetime.datetime(1900, 1, 1, tzinfo=datetime.timezone.utc)).total_seconds())
                    judge(rep, e, klass, v, secs.to_bytes(4, "big"), "in")
                    n += 1
        for v in out_of_domain(e):
            judge(rep, e, klass, v, None, "out")
            n += 1
        nontrivial += 1
    rep.add(evaluations=n, distinct=max(0, n - len(names)), class_value_cases=n)
    if names:
        rep.sample({"class": names[0], "out_of_domain": [value_repr(v) for v in out_of_domain(absavp.BY_CLASS[names[0]])[:6]]})


def type_of(cls):
    order = ["EnumeratedType", "Integer32Type", "Unsigned32Type", "Unsigned64Type", "GroupedType",
             "AddressType", "TimeType", "UTF8StringType", "DiameterIdentityType", "DiameterURIType",
             "OctetStringType"]
    for b in cls.__mro__:
        if b.__name__ in order:
            return b.__name__[:-4]
    return None


def dictionary_facts(rep):
    from bromelia.base import DiameterAVP
    import bromelia.avps as A  # noqa
    n = 0
    subs = DiameterAVP.__subclasses__()
    # (1) function-ness
    by_wire = {}
    for cls in subs:
        vendor = int.from_bytes(cls.vendor_id, "big") if cls.vendor_id is not None else None
        code = int.from_bytes(cls.code, "big")
        by_wire.setdefault((vendor, code), []).append(cls)
    for key, lst in by_wire.items():
        n += 1
        sigs = {(c.__name__, c.__module__, type_of(c), tuple(getattr(c, "values", ()) or ()),
                 tuple(sorted((getattr(c, "mandatory", None) or {}).keys()))) for c in lst}
        if len(sigs) > 1:
            rep.violation(f"C10:dictionary:ambiguous:{key[0]}:{key[1]}",
                          f"(vendor, code)={key} is defined by different classes {sorted(s[0] for s in sigs)}",
                          {"part": "dict", "what": "ambiguous", "key": list(key)})
    # (2) wire identity vs the frozen reference dictionary; every published class still exists
    live = {}
    for cls in subs:
        live[cls.__name__] = cls
    for cname, e in absavp.BY_CLASS.items():
        n += 1
        cls = live.get(cname)
        if cls is None or absavp.lib_class(cname) is None:
            rep.violation(f"C10:dictionary:class-missing:{cname}", f"published AVP class {cname} is gone",
                          {"part": "dict", "what": "missing", "cls": cname})
            continue
        vendor = int.from_bytes(cls.vendor_id, "big") if cls.vendor_id is not None else None
        code = int.from_bytes(cls.code, "big")
        t = type_of(cls)
        if e.get("special") == "ipv4_packed":
            t = "OctetString"
        diffs = []
        if vendor != e["vendor"]:
            diffs.append(f"vendor {vendor} != {e['vendor']}")
        if code != e["code"]:
            diffs.append(f"code {code} != {e['code']}")
        if t != e["type"]:
            diffs.append(f"type {t} != {e['type']}")
        if e["type"] == "Enumerated" and [v.hex() for v in cls.values] != e["values"]:
            diffs.append("enumerator list differs")
        if e["type"] == "Grouped":
            if {k: m.__name__ for k, m in cls.mandatory.items()} != e["mandatory"]:
                diffs.append("mandatory member table differs")
        try:
            inst = absavp.minimal(cname).build()
            if inst.get_flags() != e["flags"]:
                diffs.append(f"default flags 0x{inst.get_flags():02x} != 0x{e['flags']:02x}")
            if inst.get_code() != e["code"] or inst.get_vendor_id() != e["vendor"]:
                diffs.append(f"instance carries code={inst.get_code()} vendor={inst.get_vendor_id()}")
            if inst.is_vendor_id() != (e["vendor"] is not None):
                diffs.append("V flag disagrees with vendor-specific-ness")
            back = DiameterAVP.load(refcodec.enc_avp(absavp.minimal(cname).abstract()))
            if len(back) != 1 or type(back[0]).__name__ != cname:
                diffs.append(f"decoding dispatches to {type(back[0]).__name__ if back else None}")
        except BaseException as ex:  # noqa
            diffs.append(f"minimal instance cannot be built/decoded: {type(ex).__name__}: {ex}")
        # the dictionary is a function of the *pair*: the same code under another Vendor-ID (or none) that the
        # dictionary does not define is nobody's AVP and decodes as a generic one, data untouched
        try:
            ab = absavp.minimal(cname).abstract()
            for other in (99999, 10415, None, 1):
                if other == e["vendor"] or (other, e["code"]) in absavp.BY_WIRE:
                    continue
                n += 1
                flags = (ab[1] | 0x80) if other is not None else (ab[1] & 0x7f)
                wire = refcodec.enc_avp((ab[0], flags, other, b"\x00\x00\x00\x01"))
                back = DiameterAVP.load(wire)
                if len(back) != 1 or type(back[0]).__name__ != "DiameterAVP" or back[0].dump() != wire:
                    diffs.append(f"foreign-vendor {other}: code {e['code']} under Vendor-ID {other} decodes as "
                                 f"{type(back[0]).__name__ if back else None}"
                                 f"{'' if not back or back[0].dump() == wire else ' and re-encodes differently'}")
        except BaseException as ex:  # noqa
            diffs.append(f"foreign-vendor probe raised {type(ex).__name__}: {ex}")
        for d in diffs:
            rep.violation(f"C10:dictionary:identity:{cname}:{d.split(' ')[0]}",
                          f"{cname}: {d} (library vs published dictionary)",
                          {"part": "dict", "what": "identity", "cls": cname})
    for cname in live:
        if cname not in absavp.BY_CLASS:
            rep.note(f"class {cname} is not in the frozen dictionary: identity not judged, type enforcement "
                     f"and function-ness are")
    # (3) docs/list-of-avps.md and IANA table agree with the reference dictionary
    doc_path = os.path.join(core.REPO_DIR, "docs", "list-of-avps.md")
    rows = {}
    if os.path.exists(doc_path):
        for line in open(doc_path):
            m = re.match(r"\|\d+\|`([^`]+)`\|(\d+)\|(\w+)\|([^|]*)\|([^|]*)\|[^|]*\|(\w+)", line)
            if m:
                rows[m.group(6)] = (m.group(1), int(m.group(2)), m.group(3))
    for cname, (name, code, typ) in rows.items():
        n += 1
        e = absavp.BY_CLASS.get(cname)
        if e is None:
            continue
        if cname in DOC_EXCEPTIONS:
            continue
        if code != e["code"] or typ != e["type"]:
            rep.violation(f"C10:docs:{cname}", f"docs/list-of-avps.md says {name} code={code} type={typ}; "
                          f"dictionary says code={e['code']} type={e['type']}",
                          {"part": "dict", "what": "docs", "cls": cname})
    from bromelia.definitions import diameter_avps
    iana = {a["id"]: a["name"] for a in diameter_avps}
    for cname, e in absavp.BY_CLASS.items():
        if e["vendor"] is None and e.get("iana_name"):
            n += 1
            if iana.get(e["code"]) != e["iana_name"]:
                rep.violation(f"C10:iana:{cname}", f"definitions.diameter_avps names code {e['code']} "
                              f"{iana.get(e['code'])!r}; published name is {e['iana_name']!r}",
                              {"part": "dict", "what": "iana", "cls": cname})
    rep.add(evaluations=n, distinct=n, dictionary_facts=n)
    rep.sample({"dictionary_fact": "(vendor 10415, code 1405) -> UlrFlagsAVP Unsigned32 flags 0xc0"})


def _shard(rep, arg):
    kind, payload = arg
    if kind == "classes":
        part_classes(rep, payload)
    else:
        dictionary_facts(rep)


def run(report, tier, seed):
    names = [e["class"] for e in absavp.REFDICT]
    k = seed % len(names)
    names = names[k:] + names[:k]
    shards = [("dict", None)]
    for i in range(0, len(names), 8):
        shards.append(("classes", (names[i:i + 8], tier == "thorough")))
    core.run_shards(report, _shard, shards)
    return {}


def replay(w):
    rep = core.Report("C10")
    if w["part"] == "value":
        import bromelia.avps as A
        e = absavp.BY_CLASS[w["cls"]]
        klass = absavp.lib_class(w["cls"])
        cands = [(v, d, "in") for v, d in (absavp.scalar_domain(e, True) if e["type"] != "Grouped" else [])]
        cands += [(v, None, "out") for v in out_of_domain(e)]
        hit = False
        for v, d, kind in cands:
            if value_repr(v) == w["value"] and kind == w["kind"]:
                judge(rep, e, klass, v, d, kind)
                hit = True
        if not hit:
            part_classes(rep, ([w["cls"]], True))
    else:
        dictionary_facts(rep)
    for v in rep.violations.values():
        print(v.signature, "|", v.what)
    return bool(rep.violations)
