# -*- coding: utf-8 -*-
"""C03 - Malformed input is rejected cleanly and never wedges the decoder or the node
(ENUM fault enumeration for the decoder; the live-node part runs on the schedule explorer).

Decoder part: systematic single-field corruptions of reference-encoded seed messages (every truncation
point, every length field x a value alphabet, every byte x 4 replacements, typed-data faults, garbage)
through DiameterMessage.load / DiameterAVP.load / DiameterHeader.load under a deterministic step counter.
"""
import itertools
import traceback

from vk import absavp, core, steps
from vk.ref import refcodec

LEVEL = "fault_enumeration"
RULE = ("seed messages (CER, CEA, DWR, DPR, an S6a ULR with a 3-level vendor Grouped AVP, a 2-message stream) "
        "built by the reference encoder x faults: every truncation point; every length field (Message Length, "
        "every AVP Length at every nesting level) x {0..40, true-8..true+8, len, len+1, 2*len+8, powers of two, "
        "2^24-1}; every single byte x {00, ff, ^01, ^80}; typed-data faults for every dictionary class; every data "
        "width 0..17, 20, 32 x 6 fill patterns on one class of each data type; Grouped AVPs (4 kinds) nested to "
        "depths 1..12 and 30 depths up to 4096 (thorough: every depth 301..399 and up to 262144); the empty "
        "stream; all 1- and 2-byte strings (thorough) / boundary ones (quick); 4..19-byte boundary patterns; "
        "thorough adds every 24-bit value on the Message Length and on the first AVP Length of a DWR. A case is "
        "one byte string; distinct by construction (duplicates removed); non-trivial = every string that differs "
        "from its seed")
ASSUMPTIONS = [
    "step = one executed source line of the bromelia package (sys.monitoring LINE events)",
    "step bound(L) = 150000 + 5300*L + 0.2*L^2 lines for an input of L bytes: frozen constants, chosen >= 10x "
    "the worst count measured over the well-formed inputs of C02 (decode cost per AVP is ~4000 lines because the "
    "class table is rebuilt for each AVP, plus a term linear in the number of same-name AVPs already present)",
    "'library error' = an exception class defined in bromelia.exceptions; which one is not constrained",
    "a truncated or corrupted stream may also be *returned* as (short) messages: the statement allows it",
    "thorough 24-bit sweeps run without the line monitor behind a 5 s alarm; every input the alarm stops is "
    "re-run under the step counter, which decides",
    "time spent inside one source line (regular expressions, C-level loops) is bounded by processor time: 6 s + "
    "step bound / 50000 s of the process's own CPU time (ITIMER_VIRTUAL) per input, against milliseconds for "
    "well-formed inputs",
]

A, B, C = 150000, 5300, 0.2


def bound(n):
    return int(A + B * n + C * n * n)


CPU_LIMIT = 6.0


class _CpuLimit(BaseException):
    pass


def is_lib_error(e):
    import bromelia.exceptions as X
    return type(e).__module__ == X.__name__


def where(e):
    tb = traceback.extract_tb(e.__traceback__)
    for fr in reversed(tb):
        if "/bromelia/" in fr.filename:
            return f"{fr.filename.rsplit('/', 1)[1]}:{fr.name}"
    return "?"


def judge(rep, data, entry, kind):
    """Runs one decoder entry point on one byte string under the step counter."""
    from bromelia.base import DiameterMessage, DiameterAVP, DiameterHeader
    fn = {"message": DiameterMessage.load, "avp": DiameterAVP.load, "header": DiameterHeader.load}[entry]
    # the step counter sees source lines; time spent *inside* one line (a regular expression that backtracks,
    # a C-level loop) is bounded by processor time: CPU_LIMIT seconds of this process's own CPU time for one
    # input of at most a few kilobytes, where a well-formed one takes milliseconds
    import signal

    def on_cpu(signum, frame):
        raise _CpuLimit()
    old = signal.signal(signal.SIGVTALRM, on_cpu)
    # ... on top of what the permitted number of lines may cost (>= 50 000 monitored lines per second even on a
    # crowded machine), so that the two bounds never contradict each other
    cpu_limit = CPU_LIMIT + bound(len(data)) / 50000.0
    signal.setitimer(signal.ITIMER_VIRTUAL, cpu_limit)
    try:
        try:
            outcome, val, n = steps.run_bounded(lambda: fn(data), bound(len(data)))
        finally:
            signal.setitimer(signal.ITIMER_VIRTUAL, 0)
            signal.signal(signal.SIGVTALRM, old)
    except _CpuLimit:
        outcome, val, n = "cpulimit", None, 0
    if outcome == "raise" and isinstance(val, _CpuLimit):
        outcome = "cpulimit"
    wit = {"entry": entry, "data": data.hex(), "kind": kind}
    if outcome == "cpulimit":
        rep.violation(f"C03:decode:{entry}:hang-or-superlinear:cpu:{kind}",
                      f"{entry} load of {len(data)} bytes ({kind}) used more than {cpu_limit:.1f} s of processor time without "
                      f"finishing: {data.hex()[:120]}", wit)
        return
    if outcome == "return":
        rep.outcome(("return", entry))
        return
    if outcome == "steplimit":
        rep.violation(f"C03:decode:{entry}:hang-or-superlinear:{kind}",
                      f"{entry} load of {len(data)} bytes ({kind}) executed more than {bound(len(data))} library "
                      f"lines without finishing: {data.hex()[:80]}", wit)
        return
    if is_lib_error(val):
        rep.outcome((type(val).__name__, entry))
        return
    rep.violation(f"C03:decode:{entry}:leak:{type(val).__name__}@{where(val)}",
                  f"{entry} load of {data.hex()[:80]}{'..' if len(data) > 40 else ''} ({kind}) raised "
                  f"{type(val).__name__}: {val}", wit)


# -- seeds --------------------------------------------------------------------------------------------

def seeds():
    host, realm = b"peer.example", b"example"
    vsai = (260, 0x40, None, [(266, 0x40, None, (10415).to_bytes(4, "big")), (258, 0x40, None, (16777251).to_bytes(4, "big"))])
    cer = (1, 0x80, 257, 0, 1, 2, [(264, 0x40, None, host), (296, 0x40, None, realm),
                                   (257, 0x40, None, b"\x00\x01\x7f\x00\x00\x01"), (266, 0x40, None, (0).to_bytes(4, "big")),
                                   (269, 0x00, None, b"peer"), vsai])
    cea = (1, 0x00, 257, 0, 1, 2, [(268, 0x40, None, (2001).to_bytes(4, "big"))] + list(cer[6]))
    dwr = (1, 0x80, 280, 0, 3, 4, [(264, 0x40, None, host), (296, 0x40, None, realm)])
    dpr = (1, 0x80, 282, 0, 5, 6, [(264, 0x40, None, host), (296, 0x40, None, realm), (273, 0x40, None, (0).to_bytes(4, "big"))])
    sub = (1400, 0xc0, 10415, [(1424, 0xc0, 10415, (0).to_bytes(4, "big")),
                               (1435, 0xc0, 10415, [(516, 0xc0, 10415, (1000).to_bytes(4, "big")),
                                                    (515, 0xc0, 10415, (2000).to_bytes(4, "big"))])])
    ulr = (1, 0xc0, 316, 16777251, 7, 8, [(263, 0x40, None, b"s;1;2"), vsai, (277, 0x40, None, (1).to_bytes(4, "big")),
                                         (264, 0x40, None, host), (296, 0x40, None, realm), (283, 0x40, None, b"dest"),
                                         (1, 0x40, None, b"user"), (1032, 0xc0, 10415, (1004).to_bytes(4, "big")),
                                         (1405, 0xc0, 10415, (34).to_bytes(4, "big")), (1407, 0xc0, 10415, b"\x01\x02\x03"), sub])
    return {"cer": refcodec.enc_msg(cer), "cea": refcodec.enc_msg(cea), "dwr": refcodec.enc_msg(dwr),
            "dpr": refcodec.enc_msg(dpr), "ulr": refcodec.enc_msg(ulr),
            "two": refcodec.enc_msg(dwr) + refcodec.enc_msg(dpr)}


def length_fields(stream):
    """Offsets of every 3-byte length field (Message Length and AVP Lengths at all nesting levels)."""
    out = []
    i = 0
    while i < len(stream):
        out.append((i + 1, "msglen"))
        mlen = int.from_bytes(stream[i + 1:i + 4], "big")

        def walk(lo, hi, depth):
            j = lo
            while j + 8 <= hi:
                out.append((j + 5, f"avplen{depth}"))
                code = int.from_bytes(stream[j:j + 4], "big")
                flags = stream[j + 4]
                ln = int.from_bytes(stream[j + 5:j + 8], "big")
                hdr = 12 if flags & 0x80 else 8
                vendor = int.from_bytes(stream[j + 8:j + 12], "big") if flags & 0x80 else None
                e = absavp.BY_WIRE.get((vendor, code))
                if e is not None and e["type"] == "Grouped":
                    walk(j + hdr, j + ln, depth + 1)
                j += ln + (-ln) % 4
        walk(i + 20, i + mlen, 0)
        i += mlen
    return out


def length_values(true, total):
    vals = set(range(0, 41)) | set(range(max(0, true - 8), true + 9)) | {total, total + 1, total - 1, 2 * total + 8}
    vals |= {1 << k for k in range(0, 24)} | {(1 << 24) - 1, (1 << 23) + 1, 0xffff, 0x10000}
    return sorted(v for v in vals if 0 <= v < (1 << 24))


def fault_cases(tier):
    """yield (kind, entry, bytes)"""
    S = seeds()
    seen = set()

    def emit(kind, entry, data):
        key = (entry, data)
        if key not in seen:
            seen.add(key)
            return [(kind, entry, data)]
        return []

    for name, s in S.items():
        yield from emit("seed", "message", s)
        for cut in range(len(s)):
            yield from emit("truncated", "message", s[:cut])
        for off, what in length_fields(s):
            true = int.from_bytes(s[off:off + 3], "big")
            for v in length_values(true, len(s)):
                yield from emit(what, "message", s[:off] + v.to_bytes(3, "big") + s[off + 3:])
        step = 1 if (tier == "thorough" or len(s) <= 80) else 3
        for pos in range(0, len(s), step):
            for nb in (0x00, 0xff, s[pos] ^ 0x01, s[pos] ^ 0x80):
                if nb != s[pos]:
                    yield from emit("byteflip", "message", s[:pos] + bytes([nb]) + s[pos + 1:])
        body = s[20:int.from_bytes(s[1:4], "big")]
        yield from emit("seed", "avp", body)
        for cut in range(len(body)):
            yield from emit("truncated", "avp", body[:cut])
        for cut in range(0, 21):
            yield from emit("truncated", "header", s[:cut])
    # typed-data faults, one AVP inside a message and bare
    hdr = (1, 0x80, 316, 16777251, 1, 2)
    for e in absavp.REFDICT:
        t = e["type"]
        flags, vendor, code = e["flags"], e["vendor"], e["code"]
        datas = []
        if t in ("Unsigned32", "Integer32", "Enumerated", "Time"):
            datas = [b"", b"\x00" * 3, b"\x00" * 5, b"\x00" * 8, b"\xff" * 4, b"\x7f\xff\xff\xff"]
        elif t == "Unsigned64":
            datas = [b"", b"\x00" * 4, b"\x00" * 9, b"\xff" * 8]
        elif t == "Address":
            datas = [b"", b"\x00", b"\x00\x01", b"\x00\x01\x01\x02\x03", b"\x00\x01" + b"\x01" * 5, b"\x00\x02" + b"\x01" * 4,
                     b"\x00\x02" + b"\x01" * 17, b"\x00\x03\x01\x02\x03\x04", b"\xff\xff" + b"\x00" * 16]
        elif t == "DiameterURI":
            datas = [b"", b"\xff\xfe\xfd", b"http://x.example", b"aaa://", b"aaa://\xc3\x28", b"\x80abc"]
            # long hosts (one label, many labels) followed by tails the grammar does not accept: a pattern that
            # backtracks over the host needs time exponential in its length
            for host in (b"a" * 30, b"a" * 48, b"a" * 62, b"ab." * 16, b"a-" * 24, b"x" * 40 + b".example.com"):
                for tail in (b";transport=TCP", b"!", b":70000;x", b" ", b";", b":"):
                    datas.append(b"aaa://" + host + tail)
                    datas.append(b"aaas://" + host + tail)
        elif t == "Grouped":
            datas = [b"", b"\x00", b"\x00" * 7, b"\x00" * 8, b"\xff" * 12, bytes(range(1, 21)),
                     refcodec.enc_avp((9999, 0, None, b"\x01"))]
        elif t in ("UTF8String", "DiameterIdentity"):
            datas = [b"\xff\xfe", b"\xc3\x28", b"\x00"]
        else:
            datas = [b"", b"\xff" * 3]
        if tier == "quick" and t != "DiameterURI":
            datas = datas[:4]
        for d in datas:
            one = refcodec.enc_avp((code, flags, vendor, d))
            yield from emit(f"typed-{t}", "avp", one)
            yield from emit(f"typed-{t}", "message", refcodec.enc_msg(hdr + ([(code, flags, vendor, d)],)))
    # every data width 0..17, 20, 32 x fill pattern, on one representative class of each data type
    reps = {}
    for e in absavp.REFDICT:
        reps.setdefault(e["type"], e)
    for t, e in sorted(reps.items()):
        for width in list(range(0, 18)) + [20, 32]:
            for fill in (b"\x00", b"\xff", b"\x01", b"\x80", b"\x7f", bytes(range(1, 33))):
                d = (fill * 32)[:width]
                for vflagged in ((e["code"], e["flags"], e["vendor"], d),):
                    yield from emit(f"width-{t}", "avp", refcodec.enc_avp(vflagged))
                    yield from emit(f"width-{t}", "message", refcodec.enc_msg(hdr + ([vflagged],)))
    # Grouped AVPs nested to every depth 1..12 and to depths around and far beyond the interpreter's
    # recursion limit (each level of nesting costs the decoder a few Python frames)
    depths = list(range(1, 13)) + [16, 32, 64, 128, 200, 256, 300, 320, 330, 331, 332, 333, 334, 335, 340, 400, 512,
                                   700, 1000, 1024, 2000, 4096]
    if tier == "thorough":
        depths += list(range(301, 400)) + [8192, 16384, 65536, 262144]
    for gcode, gflags, gvendor in ((279, 0x40, None), (260, 0x40, None), (1400, 0xc0, 10415), (9999, 0x00, None)):
        for depth in sorted(set(depths)):
            d = b""
            hl = 12 if gvendor is not None else 8
            if hl * depth + 20 >= 2 ** 24:
                continue
            # built outside-in in one pass (prepending level by level would copy the whole string each time)
            head = gcode.to_bytes(4, "big") + bytes([gflags])
            tail = gvendor.to_bytes(4, "big") if gvendor is not None else b""
            d = b"".join(head + (hl * (depth - i)).to_bytes(3, "big") + tail for i in range(depth))
            yield from emit("deep-nesting", "avp", d)
            yield from emit("deep-nesting", "message", b"\x01" + (20 + len(d)).to_bytes(3, "big") + b"\x80\x00\x01\x3c" + bytes(12) + d)
    # garbage
    yield from emit("garbage", "message", b"")
    yield from emit("garbage", "avp", b"")
    yield from emit("garbage", "header", b"")
    singles = range(256) if tier == "thorough" else (0, 1, 0x7f, 0x80, 0xff)
    for a in singles:
        for entry in ("message", "avp", "header"):
            yield from emit("garbage", entry, bytes([a]))
    pairs = itertools.product(range(256), repeat=2) if tier == "thorough" else itertools.product((0, 1, 0x80, 0xff), repeat=2)
    for a, b in pairs:
        yield from emit("garbage", "message", bytes([a, b]))
        yield from emit("garbage", "avp", bytes([a, b]))
    for ln in range(3, 41):
        for pat in (b"\x00", b"\xff", b"\x01", b"\x80", bytes(range(1, 41))):
            data = (pat * 41)[:ln]
            for entry in ("message", "avp", "header"):
                yield from emit("garbage", entry, data)
        # a plausible header followed by nothing / with every small Message Length
    for mlen in range(0, 64):
        yield from emit("msglen", "message", b"\x01" + mlen.to_bytes(3, "big") + b"\x80\x00\x01\x18" + b"\x00" * 12)
        yield from emit("msglen", "message", b"\x01" + mlen.to_bytes(3, "big") + b"\x80\x00\x01\x18" + b"\x00" * 12 + seeds()["dwr"])


def part_decoder(rep, arg):
    tier, k, nk = arg
    n = 0
    for idx, (kind, entry, data) in enumerate(fault_cases(tier)):
        if idx % nk != k:
            continue
        judge(rep, data, entry, kind)
        n += 1
        if n % 997 == 1:
            rep.sample({"entry": entry, "fault": kind, "bytes": data.hex()[:96]})
    rep.add(evaluations=n, distinct=n, decoder_inputs=n)


class _Alarm(BaseException):
    pass


def part_sweep24(rep, arg):
    """Thorough: every 24-bit value on one length field of a DWR. Unmonitored behind an alarm; stopped
    inputs are re-run under the step counter."""
    import signal
    from bromelia.base import DiameterMessage
    field, lo, hi = arg
    s = seeds()["dwr"]
    off = 1 if field == "msglen" else 25
    n = 0

    def on_alarm(signum, frame):
        raise _Alarm()
    signal.signal(signal.SIGALRM, on_alarm)
    for v in range(lo, hi):
        data = s[:off] + v.to_bytes(3, "big") + s[off + 3:]
        n += 1
        signal.alarm(5)
        try:
            DiameterMessage.load(data)
            signal.alarm(0)
        except _Alarm:
            judge(rep, data, "message", field)
        except BaseException as e:  # noqa
            signal.alarm(0)
            if not is_lib_error(e):
                judge(rep, data, "message", field)
    rep.add(evaluations=n, distinct=n, sweep24_inputs=n)
    rep.sample({"sweep": field, "range": [lo, hi], "seed": "dwr"})


def _shard(rep, arg):
    kind, payload = arg
    {"decoder": part_decoder, "sweep24": part_sweep24, "live": part_live}[kind](rep, payload)


def part_live(rep, arg):
    from checks import c03_live
    c03_live.part(rep, arg)


def run(report, tier, seed):
    nk = core.jobs() * 4
    shards = [("decoder", (tier, (k + seed) % nk, nk)) for k in range(nk)]
    if tier == "thorough":
        step = 1 << 18
        for field in ("msglen", "avplen"):
            for lo in range(0, 1 << 24, step):
                shards.append(("sweep24", (field, lo, lo + step)))
    try:
        from checks import c03_live
        shards += [("live", a) for a in c03_live.shards(tier, seed)]
    except ImportError:
        report.note("live-node part not built in this tree")
    core.run_shards(report, _shard, shards)
    return {"step_bound": f"{A} + {B}*L + {C}*L^2"}


def replay(w):
    if "entry" in w:
        rep = core.Report("C03")
        judge(rep, bytes.fromhex(w["data"]), w["entry"], w.get("kind", "replay"))
        for v in rep.violations.values():
            print(v.signature, "|", v.what)
        return bool(rep.violations)
    from checks import c03_live
    return c03_live.replay(w)
