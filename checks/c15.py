# -*- coding: utf-8 -*-
"""C15 - Request identifiers are never reused within a process (HIST over creations x random-source answers,
plus SCHED over concurrent creators).

Creation histories over {DiameterRequest(), typed DWR, typed S6a ULR, DiameterRequest(header=h),
DiameterAnswer(), typed ULA} x every answer sequence of the random source over a 3-symbol alphabet
(explored lazily: whenever the code asks for another draw the search branches on the three symbols).
"""
import itertools

from vk import core

LEVEL = "model_checking"
RULE = ("all creation histories of length <= 3 (quick; the 8-AVP typed S6a request only in histories <= 2) / <= 4 (thorough; histories of 4 hold the typed S6a request and answer at most once each) over 6 creation kinds (plus requests/answers built from an explicit header whose length field is 0, in histories <= 2 / <= 3 with plain requests) x all os.urandom "
        "answer sequences over 3 symbols, enumerated lazily as a tree (a branch point at every draw the code "
        "makes), at most 8 (quick) / 10 (thorough) draws per history; sequences that would need more draws are "
        "counted and discarded; the 3 symbols are instantiated with 4-byte values unique to each execution so "
        "that the never-reset process-wide registries cannot leak between executions. A state = (history, draw "
        "script); every leaf is one execution on the real constructors")
ASSUMPTIONS = [
    "os.urandom is served by a scripted source substituted as the module global `os` of bromelia.base",
    "identifiers are opaque 4-byte tokens compared only by membership, so 3 symbols cover every collision "
    "pattern among <= 3 pending draws (data independence)",
    "'identifiers of every request created earlier' is read over requests created without an explicit header "
    "(the statement also says explicit-header requests never alter identifiers)",
]

KINDS = ["req", "dwr", "ulr", "explicit", "answer", "ula"]
# further kinds, explored in histories of <= 2 (quick) / <= 3 (thorough) together with "req"
EXTRA_KINDS = ["explicit-len0", "answer-explicit-len0"]


class NeedDraw(Exception):
    pass


class Source:
    def __init__(self):
        self.script = []
        self.pos = 0
        self.symbols = None

    def urandom(self, n):
        if self.pos >= len(self.script):
            raise NeedDraw()
        s = self.script[self.pos]
        self.pos += 1
        v = self.symbols[s]
        return v if n == 4 else (v * ((n + 3) // 4))[:n]


SRC = Source()
_installed = False
_EXEC = [0]


def install():
    global _installed
    if _installed:
        return
    import os as real_os
    import types
    import bromelia.base as B
    shim = types.ModuleType("os_shim")
    for k in dir(real_os):
        if not k.startswith("__"):
            setattr(shim, k, getattr(real_os, k))
    shim.urandom = SRC.urandom
    B.os = shim
    _installed = True


def create(kind):
    from bromelia.base import DiameterRequest, DiameterAnswer, DiameterHeader
    if kind == "req":
        return DiameterRequest(command_code=316, application_id=16777251)
    if kind == "dwr":
        from bromelia.messages import DWR
        return DWR(origin_host="h", origin_realm="r")
    if kind == "ulr":
        from bromelia.lib.etsi_3gpp_s6a import ULR
        return ULR(session_id=b"s;1;2", origin_host="h", origin_realm="r", destination_realm="d", user_name="u",
                   visited_plmn_id=b"\x01\x02\x03", rat_type=b"\x00\x00\x03\xec", ulr_flags=34)
    if kind == "explicit":
        h = DiameterHeader(command_code=316, application_id=16777251, hop_by_hop=0x01010101, end_to_end=0x02020202)
        return DiameterRequest(header=h)
    if kind == "explicit-len0":
        # an explicit header whose Message Length field says 0 (len(header) == 0: a falsy object)
        h = DiameterHeader(length=0, command_code=316, application_id=16777251, hop_by_hop=0x01010101, end_to_end=0x02020202)
        return DiameterRequest(header=h)
    if kind == "answer-explicit-len0":
        h = DiameterHeader(length=0, command_code=316, application_id=16777251, hop_by_hop=0x01010101, end_to_end=0x02020202)
        return DiameterAnswer(header=h)
    if kind == "answer":
        return DiameterAnswer(command_code=316, application_id=16777251)
    if kind == "ula":
        from bromelia.lib.etsi_3gpp_s6a import ULA
        return ULA(session_id=b"s;1;2", origin_host="h", origin_realm="r", result_code=2001)
    raise ValueError(kind)


def registry_sizes():
    from bromelia.base import DiameterRequest
    a = getattr(DiameterRequest, "hop_by_hop_identifiers", None)
    b = getattr(DiameterRequest, "end_to_end_identifiers", None)
    try:
        return (len(a), len(b))
    except TypeError:
        return None


def execute(history, script):
    """-> ("need", None) | ("done", errs) for this (history, script)."""
    install()
    _EXEC[0] += 1
    base = 0x10000000 + 4 * _EXEC[0]
    SRC.symbols = [(base + i).to_bytes(4, "big") for i in range(3)]
    SRC.script, SRC.pos = list(script), 0
    # an execution stands for a fresh process: the (list) registries are emptied where they can be found, so
    # that membership tests do not slow down with the number of executions; the per-execution symbol values
    # keep executions apart even if a change moves the registries elsewhere
    from bromelia.base import DiameterRequest
    for name in ("hop_by_hop_identifiers", "end_to_end_identifiers"):
        reg = getattr(DiameterRequest, name, None)
        if isinstance(reg, list):
            del reg[:]
    errs = []
    made = []
    for i, kind in enumerate(history):
        pos0, reg0 = SRC.pos, registry_sizes()
        try:
            m = create(kind)
        except NeedDraw:
            return "need", None
        draws = SRC.pos - pos0
        hbh, e2e = m.header.hop_by_hop, m.header.end_to_end
        auto = kind in ("req", "dwr", "ulr")
        if auto:
            for j, (k2, h2, e2, auto2) in enumerate(made):
                if auto2 and h2 == hbh:
                    errs.append((f"C15:hop-by-hop-reused:{k2}-then-{kind}",
                                 f"creation {i} ({kind}) got Hop-by-Hop {hbh.hex()} already given to creation {j} ({k2})"))
                if auto2 and e2 == e2e:
                    errs.append((f"C15:end-to-end-reused:{k2}-then-{kind}",
                                 f"creation {i} ({kind}) got End-to-End {e2e.hex()} already given to creation {j} ({k2})"))
            if hbh not in SRC.symbols or e2e not in SRC.symbols:
                errs.append((f"C15:identifier-not-from-source:{kind}", f"creation {i} ({kind}) carries {hbh.hex()}/{e2e.hex()}"))
        else:
            if draws:
                errs.append((f"C15:draw-consumed:{kind}", f"creation {i} ({kind}) consumed {draws} random draw(s)"))
            reg1 = registry_sizes()
            if reg0 is not None and reg1 != reg0:
                errs.append((f"C15:registry-grew:{kind}", f"creation {i} ({kind}) grew the identifier registries {reg0}->{reg1}"))
            want = (b"\x01\x01\x01\x01", b"\x02\x02\x02\x02") if "explicit" in kind else (b"\x00" * 4, b"\x00" * 4)
            if (hbh, e2e) != want:
                errs.append((f"C15:identifier-altered:{kind}", f"creation {i} ({kind}) carries {hbh.hex()}/{e2e.hex()}, given {want[0].hex()}/{want[1].hex()}"))
        made.append((kind, hbh, e2e, auto))
    return "done", errs


def explore(rep, history, max_draws):
    """DFS over the draw tree of one creation history."""
    stack = [()]
    leaves = discarded = 0
    while stack:
        script = stack.pop()
        status, errs = execute(history, script)
        if status == "need":
            if len(script) >= max_draws:
                discarded += 1
                continue
            for s in (2, 1, 0):
                stack.append(script + (s,))
            continue
        leaves += 1
        rep.outcome(len(script))
        for sig, text in dict(errs).items():
            rep.violation(sig, text, {"history": list(history), "script": list(script)})
    return leaves, discarded


def _shard(rep, arg):
    histories, max_draws = arg
    n = disc = 0
    for h in histories:
        leaves, discarded = explore(rep, h, max_draws)
        n += leaves
        disc += discarded
    rep.add(evaluations=n, distinct=n, executions=n, histories=len(histories), discarded_draw_sequences=disc)
    if histories:
        rep.sample({"history": list(histories[-1]), "script_symbols": "XYZ tree, e.g. [0,0,0,1]"})


# ------------------------------------------------------------------------------------------------------------
# concurrent creators (schedule explorer)
# ------------------------------------------------------------------------------------------------------------

def _concurrent_scenario():
    from vk.vrt import explore, shims

    class Creators(explore.Scenario):
        name = "concurrent-creators"
        horizon = 30.0
        max_points = 5000
        explore_from_start = True
        shared = frozenset({"hop_by_hop_identifiers", "end_to_end_identifiers"})

        def driver(self, rt):
            k = self.params["k"]
            _EXEC[0] += 1
            base = 0x20000000 + 64 * _EXEC[0] + (id(rt) & 0xfff) * 0x10000
            state = {"next": 0, "drawn": []}

            def scripted(n):
                # environment answer: a fresh value (default) or one of the three values drawn most recently
                # by anybody (a collision attempt against an earlier draw of this or of the other registry)
                opts = ["fresh"] + [f"repeat-{i + 1}-back" for i in range(min(3, len(state["drawn"])))]
                opt = rt.env_choice("env.urandom", str(n), opts) if len(opts) > 1 else 0
                if opt == 0:
                    state["next"] += 1
                    v = ((base + state["next"]) & 0xffffffff).to_bytes(4, "big")
                else:
                    v = state["drawn"][-opt]
                state["drawn"].append(v)
                return v
            shims.URANDOM.script = scripted
            out = {}
            rt.observations["out"] = out

            def creator(i):
                m = create(self.params["kinds"][i])
                out[i] = (m.header.hop_by_hop.hex(), m.header.end_to_end.hex())
            ts = [shims.Thread(target=creator, args=(i,), name=f"creator{i}") for i in range(k)]
            for t in ts:
                t.start()
            for t in ts:
                t.join()
            shims.URANDOM.script = None
            rt.stop()

        def oracle(self, rt):
            out = rt.observations.get("out", {})
            errs = []
            if rt.verdict != "done" or len(out) != self.params["k"]:
                return [(f"C15:concurrent:{rt.verdict}", f"creators did not finish: {rt.verdict}, {out}")]
            for field, idx in (("hop-by-hop", 0), ("end-to-end", 1)):
                vals = [v[idx] for v in out.values()]
                if len(set(vals)) != len(vals):
                    errs.append((f"C15:concurrent:{field}-reused:k{self.params['k']}",
                                 f"requests created concurrently share a {field} identifier: {out}"))
            return errs

        def outcome(self, rt):
            out = rt.observations.get("out", {})
            hb = [v[0] for v in out.values()]
            return (rt.verdict, len(set(hb)) == len(hb))
    return Creators


def _sched_shard(rep, arg):
    from vk.vrt import explore
    params, bound, k, n = arg
    scn = _concurrent_scenario()(**params)
    stats = {"executions": 0, "points": 0}
    base = explore.execute(scn)
    if k == 0:
        explore.run_one(scn, (), rep, stats)
        rep.sample({"scenario": scn.name, "params": params, "deviation_bound": bound, "points": len(base.points)})
    firsts = explore.successors(base, ())
    explore.explore_subtree(scn, firsts[k::n], bound, rep, stats)
    rep.add(evaluations=stats["executions"], distinct=stats["executions"], executions=stats["executions"],
            concurrent_executions=stats["executions"])


def _dispatch(rep, arg):
    if arg[0] == "sched":
        _sched_shard(rep, arg[1])
    else:
        _shard(rep, arg[1])


def run(report, tier, seed):
    maxlen, max_draws = (3, 8) if tier == "quick" else (4, 10)
    hs = []
    for ln in range(1, maxlen + 1):
        for h in itertools.product(KINDS, repeat=ln):
            # the typed S6a request costs ~2 ms to build (8 AVPs); quick keeps it to histories of <= 2
            if tier == "quick" and ln == 3 and "ulr" in h:
                continue
            # thorough: histories of 4 hold the typed S6a request/answer at most once each
            if ln == 4 and (h.count("ulr") > 1 or h.count("ula") > 1):
                continue
            hs.append(h)
    for ln in range(1, (2 if tier == "quick" else 3) + 1):
        for h in itertools.product(["req"] + EXTRA_KINDS, repeat=ln):
            if any(k in EXTRA_KINDS for k in h):
                hs.append(h)
    # histories with the most draws dominate the cost: spread them
    k = seed % len(hs)
    hs = hs[k:] + hs[:k]
    n = max(core.jobs() * 4, len(hs) // 2)
    shards = [("seq", (hs[i::n], max_draws)) for i in range(n) if hs[i::n]]
    # the first requests of a process: one history per freshly forked process (the parent has created nothing), so
    # that state built lazily by whichever class comes first is exercised with every class coming first
    firsts = [("dwr", "req"), ("ulr", "req"), ("dwr", "ulr"), ("ulr", "dwr"), ("req", "dwr"), ("dwr", "req", "ulr"), ("ulr", "req", "dwr")]
    if tier == "thorough":
        firsts += [h for h in itertools.product(["req", "dwr", "ulr"], repeat=3) if len(set(h)) > 1]
    shards += [("seq", ([h], max_draws)) for h in firsts]
    conc = [(dict(k=2, kinds=["req", "req"]), 2), (dict(k=2, kinds=["req", "dwr"]), 2)]
    if tier == "thorough":
        conc += [(dict(k=3, kinds=["req", "req", "dwr"]), 2), (dict(k=2, kinds=["req", "req"]), 3)]
    for params, bound in conc:
        m = 8 if bound <= 2 else 32
        shards += [("sched", (params, bound, k, m)) for k in range(m)]
    core.run_shards(report, _dispatch, shards, fresh_process=True)
    c = report.counters
    return {"_level_keys": {"states": c.get("executions", 0) + c.get("discarded_draw_sequences", 0),
                            "transitions": c.get("executions", 0),
                            "traces_validated_against_impl": c.get("executions", 0)},
            "max_history": maxlen, "max_draws": max_draws}


def replay(w):
    if "scenario" in w:
        from vk.vrt import explore
        scn = _concurrent_scenario()(**w["params"])
        rt = explore.execute(scn, {int(i): int(a) for i, a in w["choices"]})
        errs = scn.oracle(rt)
        for p in rt.points:
            print(f"  {p.thread:10s} {p.kind:12s} {p.label:24s} chosen={p.chosen} of {p.cands}")
        print(rt.observations.get("out"))
        for sig, text in errs:
            print(sig, "|", text)
        return bool(errs)
    status, errs = execute(tuple(w["history"]), tuple(w["script"]))
    print("history", w["history"], "script", w["script"], "->", status)
    for sig, text in (errs or []):
        print("  ", sig, "|", text)
    return bool(errs)
