# -*- coding: utf-8 -*-
"""C03, live-node part: malformed bytes arriving on a live connection never wedge the node (SCHED).

One representative per fault class (and the two misaddressed requests) is injected through the fake socket
into a real node in each state that can receive (server waiting for the CER, client awaiting the CEA, Open,
Closing), followed by a valid application request; then the application sends an answer and closes. At
quiescence: worker threads alive or the connection closed cleanly, no lock held, send_message()/close()
returned and a consumer blocked in get_message() was released by the close.
"""
from vk.ref import refcodec
from vk.vrt import explore, node, shims
from checks.c04 import SHARED_NODE

STATES = ["server-closed", "client-await-cea", "open-server", "open-client", "closing"]


def faults():
    """name -> bytes (each is what a broken or hostile peer could write)."""
    hdr = lambda ln, flags=0xc0, code=316, app=node.S6A: (b"\x01" + ln.to_bytes(3, "big") + bytes([flags]) +
                                                           code.to_bytes(3, "big") + app.to_bytes(4, "big") + b"\x00\x00\x00\x07\x00\x00\x00\x08")
    good = node.app_request(3)
    f = {}
    f["msglen-0"] = hdr(0) + b"\x00" * 12
    f["msglen-19"] = hdr(19) + b"\x00" * 12
    f["msglen-huge"] = hdr((1 << 24) - 1) + good[20:]
    f["truncated-header"] = good[:10]
    f["truncated-avp"] = good[:len(good) - 5]
    body = lambda avps: refcodec.enc_msg((1, 0xc0, 316, node.S6A, 7, 8, avps))
    bad_len = bytearray(body([(263, 0x40, None, b"s;9"), (264, 0x40, None, b"peer.example")]))
    bad_len[25:28] = (0).to_bytes(3, "big")
    f["avp-len-0"] = bytes(bad_len)
    bad_len[25:28] = (4000).to_bytes(3, "big")
    f["avp-len-huge"] = bytes(bad_len)
    f["typed-u32-short"] = body([(263, 0x40, None, b"s;9"), (268, 0x40, None, b"\x00\x07\xd1")])
    f["enum-unknown"] = body([(263, 0x40, None, b"s;9"), (277, 0x40, None, (99).to_bytes(4, "big"))])
    f["address-badfamily"] = body([(257, 0x40, None, b"\x00\x09\x01\x02\x03\x04")])
    f["uri-nonutf8"] = body([(292, 0x40, None, b"\xff\xfe\xfd")])
    f["grouped-garbage"] = body([(260, 0x40, None, b"\x00\x01\x02\x03\x04\x05\x06")])
    f["grouped-missing-mandatory"] = body([(260, 0x40, None, [(258, 0x40, None, (1).to_bytes(4, "big"))])])
    f["garbage-40"] = bytes((i * 7 + 3) % 256 for i in range(40))
    f["misaddressed-host"] = node.app_request(4, dest_host="elsewhere.example")
    f["misaddressed-realm"] = node.app_request(5, dest_realm="realm.elsewhere")
    # well-framed application requests whose text AVPs hold bytes that are not UTF-8 (the decoder does not
    # interpret them; whoever formats, logs or compares them afterwards must not fall over)
    base = [(263, 0x40, None, b"s;77"), (264, 0x40, None, node.PEER["host"].encode()), (296, 0x40, None, node.PEER["realm"].encode()),
            (283, 0x40, None, node.LOCAL["realm"].encode())]
    for label, code in (("session-id", 263), ("origin-host", 264), ("origin-realm", 296), ("dest-realm", 283)):
        f[f"nonutf8-{label}"] = body([(c, fl, v, b"\xff\xfe\xc3\x28" if c == code else d) for c, fl, v, d in base])
    for label, code in (("user-name", 1), ("dest-host", 293), ("error-message", 281), ("route-record", 282)):
        f[f"nonutf8-{label}"] = body(base + [(code, 0x40, None, b"\xff\xfe\xc3\x28")])
    f["cer-bad-address"] = refcodec.enc_msg((1, 0x80, 257, 0, 1, 2, [
        (264, 0x40, None, node.PEER["host"].encode()), (296, 0x40, None, node.PEER["realm"].encode()),
        (257, 0x40, None, b"\x00\x01\x7f"), (266, 0x40, None, (0).to_bytes(4, "big")), (269, 0, None, b"p")]))
    return f


class LiveFault(explore.Scenario):
    name = "live-fault"
    horizon = 200.0
    max_points = 80000
    idle_window = 12.0
    shared = SHARED_NODE
    auto_shared = True

    def driver(self, rt):
        P = self.params
        state, fault = P["state"], P["fault"]
        role = "server" if state in ("server-closed", "open-server") else "client"
        obs = rt.observations
        T = shims.Thread
        n = node.Node(rt, role)
        d = n.diameter
        obs.update(reached=False)
        app_t = None
        if role == "server":
            app_t = T(target=n.start, name="app-start")
            app_t.start()
        else:
            n.start()
        if state == "server-closed":
            n.peer.connect((node.LOCAL["ip"], node.LOCAL["port"]))
            app_t.join()
            n.settle(1.0)
        elif state == "client-await-cea":
            n.peer.wait_connect(timeout=5.0)
            n.peer.accept()
            n.wait_messages(1, timeout=10.0)
            n.settle(1.0)
        else:
            pt = T(target=n.peer_handshake, name="peer-handshake")
            pt.start()
            pt.join()
            if app_t is not None:
                app_t.join()
            if not n.wait_open():
                rt.stop("handshake-failed")
            n.settle(1.5)
            if state == "closing":
                d.close()
                n.wait_messages(2, timeout=6.0)
                n.settle(0.5)
        obs["reached"] = True
        flags = {}
        obs["flags"] = flags

        def consume():
            flags["consumer_started"] = True
            d.get_message()
            flags["consumer_returned"] = True
        consumer = None
        if state.startswith("open"):
            consumer = T(target=consume, name="app-consumer")
            consumer.start()
            n.settle(0.5)

        rt.begin_exploration()
        n.peer.send(faults()[fault])
        n.settle(2.0)
        if n.peer.conn is not None and n.peer.conn.state == "established" and not n.peer.conn.node_closed:
            n.peer.send(node.app_request(6))
            n.settle(2.0)
        obs["state_after_fault"] = n.state()

        def api_send():
            from checks.c05 import make_message
            try:
                d.send_message(make_message(2, 0))
                flags["send_outcome"] = "returned"
            except BaseException as e:  # noqa
                if isinstance(e, shims.sched.Abort):
                    raise
                flags["send_outcome"] = f"raised {type(e).__name__}"

        def api_close():
            try:
                d.close()
                flags["close_outcome"] = "returned"
            except BaseException as e:  # noqa
                if isinstance(e, shims.sched.Abort):
                    raise
                flags["close_outcome"] = f"raised {type(e).__name__}"

        if d._association is not None:
            st = T(target=api_send, name="app-send")
            st.start()
            st.join(timeout=rt.stall_time + 8.0)
        if n.state() in ("I-Open", "R-Open"):
            ct = T(target=api_close, name="app-close")
            ct.start()
            # the peer answers a DPR if one shows up
            if n.peer.wait_for(lambda: any(node.header_of(m)["code"] == 282 and node.header_of(m)["request"]
                                           for m in node.split_stream(n.peer.received())[0]), "dpr-seen",
                               timeout=rt.stall_time + 6.0):
                dprs = [m for m in node.split_stream(n.peer.received())[0] if node.header_of(m)["code"] == 282]
                h = node.header_of(dprs[-1])
                n.peer.send(node.dpa(h["hbh"], h["e2e"]))
            ct.join(timeout=rt.stall_time + 8.0)
        n.settle(rt.stall_time + 5.0)
        a = d._association
        obs["final"] = {
            "state": n.state(),
            "alive": sorted(t.name for t in rt.threads if t.library and t.state != "done"),
            "blocked_api": sorted(t.name for t in rt.threads if t.name in ("app-send", "app-close") and t.state != "done"),
            "crashed": [(t.name, type(t.exc).__name__, str(t.exc)[:90]) for t in rt.threads if t.exc is not None and t.library],
            "locks": rt.stuck_locks(),
            "conn": "closed" if (n.peer.conn is None or n.peer.conn.node_closed) else n.peer.conn.state,
        }
        rt.stop()

    def oracle(self, rt):
        P = self.params
        obs = rt.observations
        shape = f"{P['state']}:{P['fault']}"
        if rt.verdict == "handshake-failed" or not obs.get("reached"):
            return [(f"C03:live:prefix-failed:{P['state']}", f"could not reach state {P['state']} ({rt.verdict})")]
        fin = obs.get("final")
        if fin is None:
            stuck = [f"{n}@{w}" for n, st, w, lib in rt.final_states if st != "done" and w and "sleep" not in w and "select" not in w]
            return [(f"C03:live:{rt.verdict}:{shape}", f"execution ended in {rt.verdict}; blocked: {stuck}; locks {rt.final_locks}")]
        errs = []
        flags = obs.get("flags", {})
        if rt.runaways:
            errs.append((f"C03:live:worker-never-returns:{'+'.join(sorted(set(n.rstrip('0123456789') for n in rt.runaways)))}:{shape}",
                         f"thread(s) {rt.runaways} computed without end (no scheduling point in "
                         f"150000 library calls) after {P['fault']} arrived in {P['state']}"))
        if fin["blocked_api"]:
            errs.append((f"C03:live:api-call-hangs:{'+'.join(fin['blocked_api'])}:{shape}",
                         f"local API call(s) {fin['blocked_api']} did not return after {P['fault']} arrived in {P['state']}"))
        if fin["locks"]:
            errs.append((f"C03:live:lock-left-held:{shape}", f"locks held at quiescence: {fin['locks']}"))
        workers = ("psm_thread", "transport_layer_thread", "recv_message_monitor")
        alive_workers = [t for t in fin["alive"] if any(w in t for w in workers)]
        never_opened = P["state"] == "server-closed" and fin["conn"] != "closed"
        if never_opened:
            # a responder that is still waiting for a valid CER reports Closed with its workers running: they
            # must have survived the fault
            missing = [w for w in workers if not any(w in t for t in fin["alive"])]
            if missing:
                errs.append((f"C03:live:worker-died:{'+'.join(missing)}:{shape}",
                             f"responder awaiting the CER lost worker thread(s) {missing}; crashed: {fin['crashed']}"))
        elif fin["state"] == "Closed":
            if alive_workers or fin["conn"] not in ("closed",):
                errs.append((f"C03:live:closed-but-not-clean:{shape}",
                             f"state Closed but workers alive {alive_workers}, connection {fin['conn']}"))
            if flags.get("consumer_started") and not flags.get("consumer_returned"):
                errs.append((f"C03:live:consumer-not-released:{shape}", "get_message() still blocked although the node is Closed"))
        else:
            missing = [w for w in workers if not any(w in t for t in fin["alive"])]
            if missing:
                errs.append((f"C03:live:worker-died:{'+'.join(missing)}:{shape}",
                             f"state is {fin['state']} but worker thread(s) {missing} are gone; crashed: {fin['crashed']}"))
        return errs

    def outcome(self, rt):
        f = rt.observations.get("final") or {}
        return (rt.verdict, f.get("state"), tuple(f.get("alive", [])), tuple(f.get("blocked_api", [])))


def plan(tier):
    names = sorted(faults())
    deep = {("open-server", "msglen-0"), ("open-server", "typed-u32-short"), ("open-client", "misaddressed-host"),
            ("open-server", "msglen-huge")}
    for st in STATES:
        for fname in names:
            if fname == "cer-bad-address" and st != "server-closed":
                continue
            b = 1 if ((st, fname) in deep or (tier == "thorough" and st.startswith("open"))) else 0
            yield dict(state=st, fault=fname), b


def shards(tier, seed):
    work = []
    for params, bound in plan(tier):
        n = 1 if bound == 0 else 8
        for k in range(n):
            work.append((params, bound, k, n))
    cheap = [w for w in work if w[1] == 0]
    rest = [w for w in work if w[1] > 0]
    return [cheap[i::16] for i in range(16) if cheap[i::16]] + [[w] for w in rest]


def part(rep, items):
    stats = {"executions": 0, "points": 0}
    for params, bound, k, n in items:
        scn = LiveFault(**params)
        if k == 0:
            base = explore.selfcheck_determinism(scn) if bound >= 1 else explore.execute(scn)
            explore.run_one(scn, (), rep, stats)
            if params["fault"] in ("msglen-0", "misaddressed-host"):
                rep.sample({"scenario": scn.name, "params": params, "deviation_bound": bound,
                            "fault_bytes": faults()[params["fault"]].hex()[:80]})
        else:
            base = explore.execute(scn)
        if bound >= 1:
            firsts = explore.successors(base, ())
            explore.explore_subtree(scn, firsts[k::n], bound, rep, stats)
    rep.add(evaluations=stats["executions"], distinct=stats["executions"], live_executions=stats["executions"],
            scheduling_points=stats["points"])


def replay(w):
    scn = LiveFault(**w["params"])
    rt = explore.execute(scn, {int(i): int(a) for i, a in w["choices"]})
    errs = scn.oracle(rt)
    print("verdict:", rt.verdict, "| after fault:", rt.observations.get("state_after_fault"), "| final:", rt.observations.get("final"),
          "| flags:", rt.observations.get("flags"))
    for sig, text in errs:
        print(sig, "|", text)
    return bool(errs)
