# -*- coding: utf-8 -*-
"""C18 - TBCD digit encoding round-trips for every digit string (ENUM, exhaustive).

Every digit string of length 1..L (L = 5 quick, 7 thorough) is pushed through the library's encoder
and decoder and compared with an independent 6-line TBCD codec; MSISDN / STN-SR AVPs are built from
every integer of 1..K digits (K = 4 quick, 6 thorough) and from the equivalent strings.
"""
import itertools

LEVEL = "exploration"
RULE = ("every string over 0-9 of length 1..L (complete product, L=5 quick / 7 thorough) through "
        "encode_to_tbcd(str), encode_to_tbcd(int) and decode_from_tbcd; every integer with 1..K digits "
        "(K=4 quick / 6 thorough) through MsisdnAVP/StnSrAVP as int and as str; for every length L+1..20: "
        "{leading digit} x {fill digit} x all 100 last-two-digit pairs and a single odd digit at every "
        "position, through all of the above (numbers beyond 2**53 and 2**64). A case is one digit "
        "string; all are distinct by construction; non-trivial = every string (each has its own "
        "expected encoding computed by the reference codec)")
ASSUMPTIONS = [
    "reference TBCD codec in checks/c18.py (swap nibble pairs; 'f' filler in the high nibble of the "
    "last octet iff the length is odd) is the 3GPP TS 29.002 form",
    "digit strings outside the enumerated set behave like enumerated ones of the same length (the codec "
    "works on independent 2-character windows; the long structured strings exercise the int -> text step)",
]


def ref_encode(s):
    out = []
    for i in range(0, len(s) - 1, 2):
        out.append(s[i + 1] + s[i])
    if len(s) % 2:
        out.append("f" + s[-1])
    return "".join(out)


def ref_decode(h):
    out = []
    for i in range(0, len(h), 2):
        hi, lo = h[i], h[i + 1]
        out.append(lo)
        if hi != "f":
            out.append(hi)
    return "".join(out)


def _call(fn, *a):
    try:
        return ("ok", fn(*a))
    except BaseException as e:  # noqa
        return ("exc", type(e).__name__)


def parity(s):
    return "even" if len(s) % 2 == 0 else "odd"


def check_string(rep, s, utils):
    exp = ref_encode(s)
    st, got = _call(utils.encode_to_tbcd, s)
    if st != "ok" or got != exp:
        kind = "none" if (st == "ok" and got is None) else ("exc" if st == "exc" else "wrong")
        rep.violation(f"C18:encode-str:{kind}:len-{parity(s)}",
                      f"encode_to_tbcd({s!r}) gave {got!r}, TBCD form is {exp!r}",
                      {"kind": "encode-str", "input": s, "expected": exp, "got": repr(got)})
    st, got = _call(utils.decode_from_tbcd, exp)
    if st != "ok" or got != s:
        kind = "none" if (st == "ok" and got is None) else ("exc" if st == "exc" else "wrong")
        rep.violation(f"C18:decode:{kind}:len-{parity(s)}",
                      f"decode_from_tbcd({exp!r}) gave {got!r}, expected {s!r}",
                      {"kind": "decode", "input": exp, "expected": s, "got": repr(got)})
    if s[0] != "0" or s == "0":
        st, got = _call(utils.encode_to_tbcd, int(s))
        if st != "ok" or got != exp:
            kind = "none" if (st == "ok" and got is None) else ("exc" if st == "exc" else "wrong")
            rep.violation(f"C18:encode-int:{kind}:len-{parity(s)}",
                          f"encode_to_tbcd({int(s)}) gave {got!r}, TBCD form is {exp!r}",
                          {"kind": "encode-int", "input": int(s), "expected": exp, "got": repr(got)})


def check_avp(rep, n, classes):
    s = str(n)
    exp = bytes.fromhex(ref_encode(s))
    for cname, cls in classes:
        for form, arg in (("int", n), ("str", s)):
            try:
                avp = cls(arg)
                got = avp.data
                dump = avp.dump()
            except BaseException as e:  # noqa
                rep.violation(f"C18:avp:{cname}:{form}:exc-{type(e).__name__}:len-{parity(s)}",
                              f"{cname}({arg!r}) raised {type(e).__name__}: {e}",
                              {"kind": "avp", "cls": cname, "form": form, "n": n,
                               "expected": exp.hex()})
                continue
            if got != exp:
                rep.violation(f"C18:avp:{cname}:{form}:wrong-data:len-{parity(s)}",
                              f"{cname}({arg!r}).data = {got.hex()}, TBCD is {exp.hex()}",
                              {"kind": "avp", "cls": cname, "form": form, "n": n,
                               "expected": exp.hex()})
            elif exp not in dump or len(dump) != 12 + len(exp) + (-len(exp)) % 4:
                rep.violation(f"C18:avp:{cname}:{form}:wrong-dump:len-{parity(s)}",
                              f"{cname}({arg!r}).dump() = {dump.hex()}",
                              {"kind": "avp", "cls": cname, "form": form, "n": n,
                               "expected": exp.hex()})


def _shard(rep, arg):
    from bromelia import utils
    kind, length, prefix = arg
    if kind == "str":
        rest = length - len(prefix)
        n = 0
        for tail in itertools.product("0123456789", repeat=rest):
            s = prefix + "".join(tail)
            check_string(rep, s, utils)
            n += 1
        rep.add(evaluations=n, distinct=n, strings=n)
        rep.count(f"strings_len_{length}", n)
        rep.sample({"string": prefix + "0" * rest, "tbcd": ref_encode(prefix + "0" * rest)})
    elif kind == "long":
        # structured long numbers (up to 20 digits - beyond 2**53 and 2**64): leading digit x fill digit x
        # every last-two-digits pair, plus one odd digit at every position of an all-ones string
        from bromelia.avps import MsisdnAVP, StnSrAVP
        classes = [("MsisdnAVP", MsisdnAVP), ("StnSrAVP", StnSrAVP)]
        firsts, fills = prefix
        n = 0
        strings = [d1 + f * (length - 3) + f"{t:02d}" for d1 in firsts for f in fills for t in range(100)]
        strings += ["1" * p + "7" + "1" * (length - p - 1) for p in range(length)]
        for s in strings:
            check_string(rep, s, utils)
            check_avp(rep, int(s), classes)
            n += 1
        rep.add(evaluations=n, distinct=n, strings=n, avp_numbers=n)
        rep.count(f"strings_len_{length}", n)
        rep.sample({"string": strings[0], "tbcd": ref_encode(strings[0])})
    else:
        from bromelia.avps import MsisdnAVP, StnSrAVP
        classes = [("MsisdnAVP", MsisdnAVP), ("StnSrAVP", StnSrAVP)]
        lo, hi = length, prefix
        for n in range(lo, hi):
            check_avp(rep, n, classes)
        rep.add(evaluations=hi - lo, distinct=hi - lo, avp_numbers=hi - lo)
        rep.sample({"msisdn_from": lo, "data": ref_encode(str(lo))})


def run(report, tier, seed):
    from vk import core
    L = 5 if tier == "quick" else 7
    K = 4 if tier == "quick" else 6
    shards = []
    for length in range(1, L + 1):
        if length <= 3:
            shards.append(("str", length, ""))
        else:
            plen = 1 if length <= 5 else 2
            for p in itertools.product("0123456789", repeat=plen):
                shards.append(("str", length, "".join(p)))
    top = 10 ** K
    step = max(1000, top // 32)
    for lo in range(0, top, step):
        shards.append(("avp", lo, min(top, lo + step)))
    firsts, fills = ("19", "039") if tier == "quick" else ("123456789", "0123456789")
    for length in range(L + 1, 21):
        shards.append(("long", length, (firsts, fills)))
    # seed only rotates the order in which shards are handed out
    k = seed % len(shards)
    shards = shards[k:] + shards[:k]
    core.run_shards(report, _shard, shards)
    return {"max_string_length": L, "max_avp_digits": K}


def replay(w):
    from bromelia import utils
    if w["kind"] == "encode-str" or w["kind"] == "encode-int":
        got = _call(utils.encode_to_tbcd, w["input"])
        print(f"encode_to_tbcd({w['input']!r}) -> {got}; expected {w['expected']!r}")
        return got != ("ok", w["expected"])
    if w["kind"] == "decode":
        got = _call(utils.decode_from_tbcd, w["input"])
        print(f"decode_from_tbcd({w['input']!r}) -> {got}; expected {w['expected']!r}")
        return got != ("ok", w["expected"])
    if w["kind"] == "avp":
        import bromelia.avps as A
        cls = absavp.lib_class(w["cls"])
        arg = w["n"] if w["form"] == "int" else str(w["n"])
        try:
            got = cls(arg).data.hex()
        except BaseException as e:  # noqa
            got = f"raised {type(e).__name__}: {e}"
        print(f"{w['cls']}({arg!r}).data -> {got}; expected {w['expected']}")
        return got != w["expected"]
    raise ValueError(w["kind"])
