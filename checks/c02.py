# -*- coding: utf-8 -*-
"""C02 - Decoding preserves every field on the wire and re-encodes byte-identically (ENUM).

Wire images are produced by the reference encoder from abstract content (never by the library):
every dictionary class x domain values x every flag byte consistent with the class's vendor, unknown
(vendor, code) pairs x flag bytes x data lengths 0..9, nested Grouped AVPs, header-field products with
all 256 command-flag bytes, and streams of 1..3 concatenated messages. Each stream goes through
DiameterMessage.load (and DiameterAVP.load) and is compared field by field, then re-dumped.
"""
import itertools

from vk import absavp, core
from vk.absavp import Abs
from vk.ref import refcodec

LEVEL = "exploration"
RULE = ("complete products: every dictionary class x every domain value x every AVP flag byte whose V bit "
        "agrees with the class's vendor (quick: the 16 combinations of M, P and two reserved bits; "
        "thorough: all 128); unknown (vendor, code) pairs x flag bytes x data lengths 0..9; Grouped "
        "nesting to depth 2 (quick) / 3 (thorough) with member flag variations; header alphabets x all "
        "256 command-flag bytes; all streams of 1..3 (thorough 1..4) messages over a 5-message alphabet. A case is one "
        "wire image; distinct by construction; non-trivial = contains at least one AVP")
ASSUMPTIONS = [
    "vk/ref/refcodec.py produces well-formed RFC 6733 wire images",
    "well-formed excludes: non-zero padding, V bit with Vendor-ID 0, enumerators outside the library's "
    "list, Grouped AVPs lacking a member the dictionary marks mandatory, data outside the type's domain",
    "vk/ref/refdict.json names the dictionary class of each known (vendor, code)",
]

UNKNOWN = [(None, 9999), (None, 2 ** 32 - 1), (99999, 1), (10415, 9999), (2 ** 32 - 1, 263)]


def flag_bytes(vendor, tier):
    v = 0x80 if vendor is not None else 0
    if tier == "thorough":
        return [v | f for f in range(128)]
    return [v | m | p | r1 | r2 for m in (0, 0x40) for p in (0, 0x20) for r1 in (0, 0x10) for r2 in (0, 0x01)]


def with_flags(abstract, flags):
    code, _f, vendor, payload = abstract
    return (code, flags, vendor, payload)


def payload_bytes(payload):
    return payload if isinstance(payload, bytes) else refcodec.enc_avps(payload)


def compare_avp(obj, abstract, where, errs):
    from bromelia.base import DiameterAVP
    code, flags, vendor, payload = abstract
    entry = absavp.BY_WIRE.get((vendor, code))
    tname = type(obj).__name__
    if entry is not None:
        if tname != entry["class"]:
            errs.append((f"class:{entry['class']}", f"{where}: ({vendor},{code}) decoded as {tname}, "
                                                   f"dictionary class is {entry['class']}"))
    elif type(obj) is not DiameterAVP:
        errs.append(("class:unknown", f"{where}: unknown ({vendor},{code}) decoded as {tname}"))
    label = entry["class"] if entry else "unknown"
    try:
        if obj.get_code() != code:
            errs.append((f"code:{label}", f"{where}: code {obj.get_code()} != {code}"))
        if obj.get_flags() != flags:
            errs.append((f"flags:{label}", f"{where}: flags 0x{obj.get_flags():02x} != wire 0x{flags:02x}"))
        if obj.get_vendor_id() != vendor:
            errs.append((f"vendor:{label}", f"{where}: vendor {obj.get_vendor_id()} != {vendor}"))
        want = payload_bytes(payload)
        got = obj.data if obj.data is not None else b""
        if got != want:
            errs.append((f"data:{label}", f"{where}: data {bytes(got).hex()} != {want.hex()}"))
        if obj.get_length() != (12 if vendor is not None else 8) + len(want):
            errs.append((f"length:{label}", f"{where}: get_length() {obj.get_length()}"))
    except BaseException as e:  # noqa
        errs.append((f"accessor-raises-{type(e).__name__}:{label}", f"{where}: {type(e).__name__}: {e}"))
        return
    if entry is not None and entry["type"] == "Grouped" and not isinstance(payload, bytes):
        try:
            members = list(obj.avps)
        except BaseException as e:  # noqa
            errs.append((f"members-raise:{label}", f"{where}: .avps raised {type(e).__name__}"))
            return
        if len(members) != len(payload):
            errs.append((f"member-count:{label}", f"{where}: {len(members)} members, wire has {len(payload)}"))
            return
        for i, (m, ab) in enumerate(zip(members, payload)):
            compare_avp(m, ab, f"{where}.{i}", errs)


def normalise(ab):
    """The content with the flags of every known-class AVP replaced by that class's default flags
    (recursively inside Grouped AVPs): what a decoder yields that rebuilds known AVPs from data only."""
    code, flags, vendor, payload = ab
    e = absavp.BY_WIRE.get((vendor, code))
    if e is None:
        return ab
    if not isinstance(payload, bytes):
        payload = [normalise(m) for m in payload]
    return (code, e["flags"], vendor, payload)


FLAGS_FINDING = "C02:known-avp-wire-flags-replaced-by-class-default"


def compare_stream(out, msgs, slices):
    errs = []
    for mi, (obj, m, sl) in enumerate(zip(out, msgs, slices)):
        version, flags, command, application, hbh, e2e, avps = m
        h = obj.header
        for name, got, want in (("version", h.get_version(), version), ("hflags", h.get_flags(), flags),
                                ("command", h.get_command_code(), command),
                                ("application", h.get_application_id(), application),
                                ("hop-by-hop", h.get_hop_by_hop(), hbh),
                                ("end-to-end", h.get_end_to_end(), e2e),
                                ("length", h.get_length(), len(sl))):
            if got != want:
                errs.append((f"header-{name}", f"msg{mi}: header {name} {got} != {want}"))
        objs = obj.avps
        if len(objs) != len(avps):
            errs.append(("avp-count", f"msg{mi}: {len(objs)} AVPs, wire has {len(avps)}"))
        else:
            for ai, (o, ab) in enumerate(zip(objs, avps)):
                compare_avp(o, ab, f"msg{mi}.avp{ai}", errs)
        try:
            red = obj.dump()
            if red != sl:
                errs.append(("redump", f"msg{mi}: dump() {red.hex()[:100]} != wire {sl.hex()[:100]}"))
        except BaseException as e:  # noqa
            errs.append((f"redump-raises-{type(e).__name__}", f"msg{mi}: dump raised {e}"))
    return errs


def check_stream(rep, msgs, part, sigkey=""):
    """msgs: list of abstract messages. Encodes, decodes with the library, compares."""
    from bromelia.base import DiameterMessage
    slices = [refcodec.enc_msg(m) for m in msgs]
    stream = b"".join(slices)
    wit = {"part": part, "stream": stream.hex(), "n": len(msgs)}
    try:
        out = DiameterMessage.load(stream)
    except BaseException as e:  # noqa
        rep.violation(f"C02:{part}:load-raises-{type(e).__name__}{sigkey}",
                      f"well-formed stream rejected: {type(e).__name__}: {e}", wit)
        return
    if len(out) != len(msgs):
        rep.violation(f"C02:{part}:message-count{sigkey}",
                      f"{len(out)} objects for {len(msgs)} encoded messages", wit)
        return
    errs = compare_stream(out, msgs, slices)
    if not errs:
        return
    # Is the whole discrepancy exactly "known AVPs carry their class-default flags instead of the wire
    # flags" (one call site: DiameterAVP.load rebuilds known AVPs from their data only)?
    nmsgs = [m[:6] + ([normalise(a) for a in m[6]],) for m in msgs]
    if nmsgs != msgs:
        nslices = [refcodec.enc_msg(m) for m in nmsgs]
        if len(b"".join(nslices)) == len(stream) and not compare_stream(out, nmsgs, nslices):
            rep.violation(FLAGS_FINDING,
                          "decoding a known AVP whose wire flags differ from its class default yields the "
                          "class-default flags (M/P/reserved bits lost, also inside Grouped AVPs) and the "
                          "message re-serialises with those flags: " + errs[0][1], wit)
            return
    seen = set()
    for key, text in errs:
        if key in seen:
            continue
        seen.add(key)
        rep.violation(f"C02:{part}:{key}{sigkey}", text, wit)


HDR = (1, 0x80, 316, 16777251, 0x11223344, 0x55667788)


def part_classes(rep, arg):
    names, tier = arg
    n = 0
    for cname in names:
        e = absavp.BY_CLASS[cname]
        insts = absavp.all_instances(cname, tier == "thorough")
        seen_payload = set()
        for a in insts:
            ab = a.abstract()
            key = payload_bytes(ab[3])
            if key in seen_payload:
                continue
            seen_payload.add(key)
            for f in flag_bytes(e["vendor"], tier):
                fb = "" if f == e["flags"] else f":wire-flags-{'M' if f & 0x40 else 'm'}{'P' if f & 0x20 else 'p'}{'R' if f & 0x1f else 'r'}"
                check_stream(rep, [HDR + ([with_flags(ab, f)],)], "class", fb)
                n += 1
    rep.add(evaluations=n, distinct=n, class_wire_images=n)
    if names:
        a = absavp.all_instances(names[0])[0]
        rep.sample({"class": names[0], "wire": refcodec.enc_avp(a.abstract()).hex()})


def part_unknown(rep, arg):
    tier, = arg
    n = 0
    for vendor, code in UNKNOWN:
        for f in flag_bytes(vendor, tier):
            for ln in range(10):
                data = bytes((i * 29 + ln) % 250 + 1 for i in range(ln))
                check_stream(rep, [HDR + ([(code, f, vendor, data)],)], "unknown")
                n += 1
    rep.add(evaluations=n, distinct=n, unknown_wire_images=n)
    rep.sample({"unknown": refcodec.enc_avp((9999, 0xe0, 99999, b"\x01\x02")).hex()})


def part_headers(rep, arg):
    k, nk = arg
    from checks.c01 import VERSIONS, COMMANDS, APPS, IDS
    n = idx = 0
    avp = (264, 0x40, None, b"host")
    for v, f, c, a, h, e in itertools.product(VERSIONS, range(256), COMMANDS, APPS, [0, 2 ** 32 - 1], [1, 2 ** 31]):
        idx += 1
        if idx % nk != k:
            continue
        check_stream(rep, [(v, f, c, a, h, e, [avp])], "header")
        check_stream(rep, [(v, f, c, a, e, h, [])], "header")
        n += 2
    rep.add(evaluations=n, distinct=n, header_wire_images=n)
    rep.sample({"header_stream": refcodec.enc_msg((1, 0xff, 316, 4, 0, 1, [avp])).hex()})


def message_alphabet():
    ulr_like = (1, 0xc0, 316, 16777251, 1, 2, [
        (263, 0x40, None, b"a;1;2"), (264, 0x40, None, b"h"), (296, 0x40, None, b"re"),
        (1405, 0xc0, 10415, (34).to_bytes(4, "big")),
        (260, 0x40, None, [(266, 0x40, None, (10415).to_bytes(4, "big")), (258, 0x40, None, (16777251).to_bytes(4, "big"))]),
    ])
    dwr = (1, 0x80, 280, 0, 3, 4, [(264, 0x40, None, b"peer.example"), (296, 0x40, None, b"example")])
    dwa = (1, 0x00, 280, 0, 3, 4, [(268, 0x40, None, (2001).to_bytes(4, "big")), (264, 0x40, None, b"abc")])
    empty = (1, 0x00, 0, 0, 0, 0, [])
    odd = (1, 0x20, 9999, 7, 2 ** 32 - 1, 0, [(9999, 0x00, None, b"\x01"), (1, 0x60, None, b"ab")])
    return [ulr_like, dwr, dwa, empty, odd]


def part_streams(rep, arg):
    maxn, = arg
    A = message_alphabet()
    n = 0
    for ln in range(1, maxn + 1):
        for seq in itertools.product(range(len(A)), repeat=ln):
            check_stream(rep, [A[i] for i in seq], "stream")
            n += 1
    rep.add(evaluations=n, distinct=n, streams=n)
    rep.sample({"stream_of": ["ulr_like", "dwr", "empty"]})


def part_nesting(rep, arg):
    maxdepth, tier = arg
    leaves = [(1, 0x40, None, b"a"), (264, 0x40, None, b"ab"), (296, 0x60, None, b"abc"),
              (268, 0x40, None, (1).to_bytes(4, "big")), (1407, 0xc0, 10415, b"\x01\x02\x03"),
              (9999, 0x80, 7, b"\x01"), (1, 0x00, None, b"")]
    groups = {False: (279, None), True: (1400, 10415)}
    n = 0
    gflags = [0x00, 0x40, 0x60] if tier == "quick" else [0x00, 0x40, 0x20, 0x60, 0x41, 0x50]
    for depth in range(1, maxdepth + 1):
        for pattern in itertools.product((False, True), repeat=depth):
            for leaf in leaves:
                for gf in gflags:
                    for width in (1, 2):
                        node = leaf
                        for v in reversed(pattern):
                            code, vendor = groups[v]
                            members = [node] if width == 1 else [node, leaf]
                            node = (code, gf | (0x80 if vendor else 0), vendor, members)
                        check_stream(rep, [HDR + ([node],)], "nest")
                        check_stream(rep, [HDR + ([leaf, node, leaf],)], "nest")
                        n += 2
    # Grouped classes with mandatory members: members present, in both orders, extra unknown member
    for cname, e in absavp.BY_CLASS.items():
        if e["type"] != "Grouped" or not e["mandatory"]:
            continue
        for a in absavp.grouped_variants(cname, True):
            ab = a.abstract()
            for extra in ([], [(9999, 0x00, None, b"\x07")]):
                check_stream(rep, [HDR + ([(ab[0], ab[1], ab[2], list(ab[3]) + extra)],)], "nest")
                n += 1
    rep.add(evaluations=n, distinct=n, nesting_wire_images=n)
    rep.sample({"nested": refcodec.enc_avp((279, 0x40, None, [(1400, 0xc0, 10415, [leaves[0]])])).hex()})


def part_avp_load(rep, arg):
    """DiameterAVP.load on runs of AVPs (no message header)."""
    from bromelia.base import DiameterAVP
    alpha = [(1, 0x40, None, b"a"), (264, 0x40, None, b"ab"), (1407, 0xc0, 10415, b"\x01\x02\x03"),
             (9999, 0xa0, 7, b"\x01\x02\x03\x04\x05"), (268, 0x60, None, (5012).to_bytes(4, "big")),
             (260, 0x40, None, [(266, 0x40, None, (10415).to_bytes(4, "big"))])]
    n = 0
    for ln in range(1, 4):
        for seq in itertools.product(range(len(alpha)), repeat=ln):
            avps = [alpha[i] for i in seq]
            stream = refcodec.enc_avps(avps)
            wit = {"part": "avp-load", "stream": stream.hex()}
            n += 1
            try:
                objs = DiameterAVP.load(stream)
            except BaseException as e:  # noqa
                rep.violation(f"C02:avp-load:raises-{type(e).__name__}", f"{type(e).__name__}: {e}", wit)
                continue
            if len(objs) != len(avps):
                rep.violation("C02:avp-load:count", f"{len(objs)} objects for {len(avps)} AVPs", wit)
                continue
            def cmp(content):
                errs = []
                for i, (o, ab) in enumerate(zip(objs, content)):
                    compare_avp(o, ab, f"avp{i}", errs)
                    if not errs and o.dump() != refcodec.enc_avp(ab):
                        errs.append(("redump", f"avp{i} re-dumps differently"))
                return errs
            errs = cmp(avps)
            if errs and [normalise(a) for a in avps] != avps and not cmp([normalise(a) for a in avps]):
                rep.violation(FLAGS_FINDING, "DiameterAVP.load: " + errs[0][1], wit)
                continue
            for key, text in dict(errs).items():
                rep.violation(f"C02:avp-load:{key}", text, wit)
    rep.add(evaluations=n, distinct=n, avp_runs=n)


def part_registry(rep, arg):
    """'Known (vendor, code) pairs are materialised as their dictionary class' while the dictionary grows: every
    history over {decode pair A, decode pair B, define class for A, define class for B} of length <= 5 in which
    each definition happens at most once (runs in its own forked shard: the classes stay defined afterwards)."""
    import itertools as it
    import struct
    from bromelia.base import DiameterAVP
    from bromelia.types import OctetStringType
    n = 0
    counter = [0]

    def wire(vendor, code):
        return refcodec.enc_avp((code, 0xc0, vendor, b"tag"))

    def define(vendor, code):
        counter[0] += 1
        ns = {}
        cname = f"VerifDyn{counter[0]}AVP"

        def init(self, data):
            DiameterAVP.__init__(self, type(self).code, type(self).vendor_id)
            DiameterAVP.set_vendor_id_bit(self, True)
            DiameterAVP.set_mandatory_bit(self, True)
            OctetStringType.__init__(self, data=data, vendor_id=type(self).vendor_id)
        return type(cname, (DiameterAVP, OctetStringType), {"code": struct.pack(">I", code), "vendor_id": struct.pack(">I", vendor),
                                                            "__init__": init})
    ops_all = ["decA", "decB", "defA", "defB"]
    hist_no = 0
    for ln in range(1, 6):
        for hist_ in it.product(ops_all, repeat=ln):
            if hist_.count("defA") > 1 or hist_.count("defB") > 1 or not any(o.startswith("dec") for o in hist_):
                continue
            hist_no += 1
            pairs = {"A": (770000 + hist_no, 5000 + hist_no), "B": (880000 + hist_no, 6000 + hist_no)}   # fresh pairs per history
            defined = {}
            n += 1
            for step, op in enumerate(hist_):
                which = op[-1]
                vendor, code = pairs[which]
                if op.startswith("def"):
                    defined[which] = define(vendor, code)
                    continue
                try:
                    got = DiameterAVP.load(wire(vendor, code))
                except BaseException as e:  # noqa
                    rep.violation(f"C02:registry:decode-raises-{type(e).__name__}", f"history {hist_} step {step}: {e}",
                                  {"part": "registry", "history": list(hist_)})
                    break
                want = defined[which].__name__ if which in defined else "DiameterAVP"
                if len(got) != 1 or type(got[0]).__name__ != want or got[0].dump() != wire(vendor, code):
                    rep.violation(f"C02:registry:{'stale-generic' if which in defined else 'not-generic'}",
                                  f"history {hist_}: step {step} decoded pair {which} as {type(got[0]).__name__ if got else None}, "
                                  f"the dictionary {'defines ' + want if which in defined else 'does not define it'} at that point",
                                  {"part": "registry", "history": list(hist_)})
                    break
    rep.add(evaluations=n, distinct=n, registry_histories=n)
    rep.sample({"registry_history": ["decA", "defA", "decA"]})


def _shard(rep, arg):
    kind, payload = arg
    {"registry": part_registry, "classes": part_classes, "unknown": part_unknown, "headers": part_headers, "streams": part_streams,
     "nesting": part_nesting, "avp-load": part_avp_load}[kind](rep, payload)


def run(report, tier, seed):
    names = [e["class"] for e in absavp.REFDICT]
    k = seed % len(names)
    names = names[k:] + names[:k]
    shards = []
    per = 4 if tier == "thorough" else 8
    for i in range(0, len(names), per):
        shards.append(("classes", (names[i:i + per], tier)))
    shards.append(("unknown", (tier,)))
    nk = 16
    stride = 1 if tier == "thorough" else 8
    for kk in range(0, nk, stride):
        shards.append(("headers", (kk, nk)))
    shards.append(("streams", (4 if tier == "thorough" else 3,)))
    shards.append(("nesting", (3 if tier == "thorough" else 2, tier)))
    shards.append(("avp-load", None))
    shards.append(("registry", None))
    core.run_shards(report, _shard, shards)
    if tier == "quick":
        report.note("quick: header product visits 2 of 16 residue classes of the full product "
                    "(every flag byte still occurs); thorough visits all")
    return {}


def replay(w):
    from bromelia.base import DiameterMessage, DiameterAVP
    if w["part"] == "registry":
        rep = core.Report("C02")
        part_registry(rep, None)
        for v in rep.violations.values():
            print(v.signature, "|", v.what)
        return bool(rep.violations)
    stream = bytes.fromhex(w["stream"])
    if w["part"] == "avp-load":
        want = refcodec.dec_avps(stream)
        got = DiameterAVP.load(stream)
        for o, ab in zip(got, want):
            print(type(o).__name__, o.get_code(), hex(o.get_flags()), o.get_vendor_id(), "| wire:", ab[:3])
        return any(o.get_flags() != ab[1] or o.dump() != refcodec.enc_avp(ab) for o, ab in zip(got, want))
    want = refcodec.dec_msgs(stream, recurse=lambda c, v: (absavp.BY_WIRE.get((v, c)) or {}).get("type") == "Grouped")
    rep = core.Report("C02")
    check_stream(rep, want, w["part"])
    for v in rep.violations.values():
        print(v.signature, "|", v.what)
    try:
        for m in DiameterMessage.load(stream):
            print("decoded:", m, [(type(a).__name__, hex(a.get_flags())) for a in m.avps])
    except BaseException as e:  # noqa
        print("load raised", type(e).__name__, e)
    return bool(rep.violations)
