# -*- coding: utf-8 -*-
"""C01 - Serialised messages are exactly the RFC 6733 encoding of their content (ENUM).

Enumerates header field products, generic AVPs (all 256 flag bytes x vendor x data length 0..9),
every dictionary class x its domain values, AVP sequences over a 12-letter alphabet, Grouped nesting
chains and the typed command classes; each message is built through the public API along four
construction paths and its dump()/bytes() compared with the reference encoder fed the same content.
"""
import itertools

from vk import absavp, core
from vk.absavp import Abs
from vk.ref import refcodec

LEVEL = "exploration"
RULE = ("complete products over explicit alphabets: header fields (version x flags x command x "
        "application x identifiers, int and bytes forms; quick = complete pairwise-with-all-flags "
        "product, thorough = full product); generic AVPs code x 256 flag bytes x vendor x data length "
        "0..9 x data form; every dictionary class x every domain value; all AVP sequences of length "
        "<= 3 (quick) / <= 4 (thorough) over a 12-letter alphabet x 8 construction paths (constructor, append, extend, list assignment, list assignment over existing content, cleanup + extend, DiameterMessage.convert and its source); Grouped "
        "chains of depth <= 3 / <= 5 with every vendor pattern; typed command classes. A case is one "
        "(content, construction path); distinct by construction; non-trivial = has at least one AVP or "
        "a non-default header field")
ASSUMPTIONS = [
    "vk/ref/refcodec.py is a faithful RFC 6733 encoder (hand vectors in its selftest)",
    "vk/ref/refdict.json (frozen from the pinned tree, cross-read with docs/list-of-avps.md and the "
    "IANA table in definitions.py) gives each class's code, vendor and default flags",
    "a constructor that raises for an in-domain value builds no message: counted as "
    "rejected_in_domain, not a C01 violation",
]

VERSIONS = [1, 0, 255]
HFLAGS = [0x00, 0x80, 0x40, 0x20, 0xc0, 0xf0, 0xff, 0x01]
COMMANDS = [0, 257, 316, 2 ** 24 - 1]
APPS = [0, 4, 16777251, 2 ** 32 - 1]
IDS = [0, 1, 2 ** 31, 2 ** 32 - 1]


def classify(exp, got):
    if len(exp) != len(got):
        return f"size{len(got) - len(exp):+d}"
    for name, sl in (("code", slice(0, 4)), ("flags", slice(4, 5)), ("length-field", slice(5, 8))):
        if exp[sl] != got[sl]:
            return name
    return "content"


def hdr_classify(exp, got):
    if len(exp) != len(got):
        return f"size{len(got) - len(exp):+d}"
    for name, sl in (("version", slice(0, 1)), ("length-field", slice(1, 4)), ("flags", slice(4, 5)),
                     ("command", slice(5, 8)), ("application", slice(8, 12)), ("hop-by-hop", slice(12, 16)),
                     ("end-to-end", slice(16, 20))):
        if exp[sl] != got[sl]:
            return name
    return "avps"


def avp_label(a):
    if a.kind == "generic":
        return "generic"
    return a.cls


# ---------------------------------------------------------------------------------------------
# single AVP cases
# ---------------------------------------------------------------------------------------------

def check_avp(rep, a, part):
    exp = a.expected()
    try:
        obj = a.build()
    except BaseException as e:  # noqa
        rep.count("rejected_in_domain")
        rep.count(f"rejected:{avp_label(a)}:{type(e).__name__}")
        return None
    try:
        got = obj.dump()
        got2 = bytes(obj)
        from bromelia.base import DiameterAVP
        conv = DiameterAVP.convert(obj).dump()
        if conv != got:
            rep.violation(f"C01:{part}:{avp_label(a)}:convert-differs",
                          f"DiameterAVP.convert({a.describe()}) dumps {conv.hex()}, the AVP itself {got.hex()}",
                          {"part": "avp", "avp": a.describe()})
    except BaseException as e:  # noqa
        rep.violation(f"C01:{part}:{avp_label(a)}:dump-raises-{type(e).__name__}",
                      f"{a.describe()} was built but dump() raised {type(e).__name__}: {e}",
                      {"part": "avp", "avp": a.describe()})
        return None
    if got != exp or got2 != exp:
        vkey = "vendor" if (a.abstract()[2] is not None) else "novendor"
        rep.violation(f"C01:{part}:{avp_label(a)}:{classify(exp, got)}:{vkey}:mod{len(a.abstract()[3]) % 4 if isinstance(a.abstract()[3], bytes) else 'g'}",
                      f"{a.describe()} dumps {got.hex()} but RFC 6733 encoding is {exp.hex()}",
                      {"part": "avp", "avp": a.describe(), "expected": exp.hex(), "got": got.hex()})
        return None
    return obj


LENGTHS = list(range(0, 10))


def part_generic(rep, arg):
    codes, = arg
    n = 0
    vendors = [None, 0, 1, 10415, 2 ** 32 - 1]
    for code in codes:
        for flags in range(256):
            for vendor in vendors:
                if bool(flags & 0x80) != (vendor is not None):
                    continue
                for ln in LENGTHS:
                    data = bytes((i * 37 + ln) % 251 + 1 for i in range(ln))
                    a = Abs.generic(code, flags, vendor, data, "bytes")
                    check_avp(rep, a, "generic")
                    n += 1
                # str and int forms
                a = Abs.generic(code, flags, vendor, b"abc", "str")
                check_avp(rep, a, "generic")
                a = Abs.generic(code, flags, vendor, (7).to_bytes(4, "big"), "int")
                check_avp(rep, a, "generic")
                a = Abs.generic(code, flags, vendor, (0).to_bytes(4, "big"), "int")
                check_avp(rep, a, "generic")
                n += 3
    rep.add(evaluations=n, distinct=n, generic_avps=n)
    rep.sample({"generic_avp": Abs.generic(codes[0], 0xc0, 10415, b"\x01\x02\x03", "bytes").describe()})


def part_classes(rep, arg):
    names, wide = arg
    n = 0
    for cname in names:
        for a in absavp.all_instances(cname, wide):
            obj = check_avp(rep, a, "class")
            n += 1
            if obj is None:
                continue
            # the same AVP inside a one-AVP message, through two construction paths
            for path in ("ctor", "append"):
                check_message(rep, (1, 0x80, 316, 16777251, 1, 2), [a], path, "class-msg")
                n += 1
    rep.add(evaluations=n, distinct=n, class_cases=n)
    if names:
        rep.sample({"class_instance": absavp.all_instances(names[0])[0].describe()})


# ---------------------------------------------------------------------------------------------
# messages
# ---------------------------------------------------------------------------------------------

def build_message(hdr, avps, path, forms="int"):
    from bromelia.base import DiameterHeader, DiameterMessage
    version, flags, command, application, hbh, e2e = hdr
    if forms == "bytes":
        h = DiameterHeader(version=bytes([version]), flags=bytes([flags]),
                           command_code=command.to_bytes(3, "big"),
                           application_id=application.to_bytes(4, "big"),
                           hop_by_hop=hbh.to_bytes(4, "big"), end_to_end=e2e.to_bytes(4, "big"))
    else:
        h = DiameterHeader(version=version, flags=flags, command_code=command,
                           application_id=application, hop_by_hop=hbh, end_to_end=e2e)
    objs = [a.build() for a in avps]
    if path == "ctor":
        return DiameterMessage(header=h, avps=objs)
    m = DiameterMessage(header=h)
    if path == "append":
        for o in objs:
            m.append(o)
    elif path == "extend":
        m.extend(objs)
    elif path == "setter":
        m.avps = objs
    elif path == "setter-over-content":
        # the list is replaced on a message that already holds (the same kind of) AVPs
        for a in avps:
            m.append(a.build())
        m.avps = objs
    elif path == "cleanup-extend":
        m.extend([a.build() for a in avps])
        m.cleanup()
        m.extend(objs)
    elif path == "convert":
        # DiameterMessage.convert(): a generic message built from another message
        src = DiameterMessage(header=h, avps=objs)
        return DiameterMessage.convert(src)
    elif path == "convert-source":
        # ... and the source message must still serialise to its own content afterwards
        src = DiameterMessage(header=h, avps=objs)
        DiameterMessage.convert(src)
        return src
    else:
        raise ValueError(path)
    return m


def check_message(rep, hdr, avps, path, part, forms="int"):
    exp = refcodec.enc_msg(hdr + ([a.abstract() for a in avps],))
    wit = {"part": "message", "header": list(hdr), "avps": [a.describe() for a in avps], "path": path,
           "forms": forms}
    try:
        m = build_message(hdr, avps, path, forms)
    except BaseException as e:  # noqa
        rep.count("message_rejected")
        rep.count(f"message_rejected:{type(e).__name__}")
        return
    try:
        got, got2 = m.dump(), bytes(m)
        glen = m.header.get_length()
    except BaseException as e:  # noqa
        rep.violation(f"C01:{part}:dump-raises-{type(e).__name__}:{path}",
                      f"message built via {path} but dump() raised {type(e).__name__}: {e}", wit)
        return
    shape = "+".join(avp_label(a) if a.kind == "generic" else absavp.BY_CLASS[a.cls]["type"] for a in avps)
    if got != exp or got2 != exp:
        wit.update(expected=exp.hex(), got=got.hex())
        rep.violation(f"C01:{part}:{hdr_classify(exp, got)}:{path}:{shape if len(shape) < 60 else len(avps)}",
                      f"message ({path}) dumps {got.hex()[:120]}.. expected {exp.hex()[:120]}..", wit)
    elif glen != len(got) or len(got) % 4:
        wit.update(expected=exp.hex(), got=got.hex())
        rep.violation(f"C01:{part}:get_length:{path}",
                      f"header.get_length()={glen} but len(dump())={len(got)}", wit)


def header_cases(tier):
    if tier == "thorough":
        for v, f, c, a, h, e in itertools.product(VERSIONS, HFLAGS, COMMANDS, APPS, IDS, IDS):
            yield (v, f, c, a, h, e)
    else:
        # complete pairwise product: every pair of fields takes every pair of values; the other
        # fields sit at their first alphabet value.
        fields = [VERSIONS, HFLAGS, COMMANDS, APPS, IDS, IDS]
        seen = set()
        for i, j in itertools.combinations(range(6), 2):
            for vi, vj in itertools.product(fields[i], fields[j]):
                case = [f[0] for f in fields]
                case[i], case[j] = vi, vj
                t = tuple(case)
                if t not in seen:
                    seen.add(t)
                    yield t


def part_headers(rep, arg):
    tier, k, nk = arg
    from bromelia.base import DiameterHeader
    n = 0
    one = [Abs.generic(263, 0x40, None, b"abc", "bytes")]
    for idx, hdr in enumerate(header_cases(tier)):
        if idx % nk != k:
            continue
        for forms in ("int", "bytes"):
            # header alone
            version, flags, command, application, hbh, e2e = hdr
            exp = refcodec.enc_msg(hdr + ([],))
            try:
                if forms == "int":
                    h = DiameterHeader(version=version, flags=flags, command_code=command,
                                       application_id=application, hop_by_hop=hbh, end_to_end=e2e)
                else:
                    h = DiameterHeader(version=bytes([version]), flags=bytes([flags]),
                                       command_code=command.to_bytes(3, "big"),
                                       application_id=application.to_bytes(4, "big"),
                                       hop_by_hop=hbh.to_bytes(4, "big"),
                                       end_to_end=e2e.to_bytes(4, "big"))
                got = h.dump()
                if got != exp or bytes(h) != exp:
                    rep.violation(f"C01:header:{hdr_classify(exp, got)}:{forms}",
                                  f"DiameterHeader{hdr} dumps {got.hex()} expected {exp.hex()}",
                                  {"part": "header", "header": list(hdr), "forms": forms})
            except BaseException as e:  # noqa
                rep.violation(f"C01:header:raises-{type(e).__name__}:{forms}",
                              f"DiameterHeader{hdr} ({forms}) raised {type(e).__name__}: {e}",
                              {"part": "header", "header": list(hdr), "forms": forms})
            check_message(rep, hdr, [], "ctor", "header-msg", forms)
            check_message(rep, hdr, one, "append", "header-msg", forms)
            n += 3
    rep.add(evaluations=n, distinct=n, header_cases=n)
    rep.sample({"header": [1, 0x80, 316, 16777251, 1, 2 ** 32 - 1]})


def sequence_alphabet():
    """12 letters: {vendor, no vendor} x data residues x {flat, Grouped}, equal twins included."""
    A = []
    A.append(Abs.of("UserNameAVP", "a", b"a"))                       # no vendor, residue 1
    A.append(Abs.of("UserNameAVP", "a", b"a"))                       # equal twin (distinct object)
    A.append(Abs.of("OriginHostAVP", "ab", b"ab"))                   # residue 2
    A.append(Abs.of("OriginRealmAVP", "abc", b"abc"))                # residue 3
    A.append(Abs.of("ResultCodeAVP", 2001, (2001).to_bytes(4, "big")))  # residue 0
    A.append(Abs.of("ClassAVP", b"", b""))                           # empty data
    A.append(Abs.of("VisitedPlmnIdAVP", b"\x01\x02\x03", b"\x01\x02\x03"))   # vendor, residue 3
    A.append(Abs.of("UlrFlagsAVP", 34, (34).to_bytes(4, "big")))     # vendor, residue 0
    A.append(Abs.generic(9999, 0x00, None, b"\x01\x02\x03\x04\x05", "bytes"))  # unknown, residue 1
    A.append(Abs.generic(9999, 0xe0, 99999, b"\x01\x02", "bytes"))   # unknown vendor, residue 2
    A.append(absavp.minimal("VendorSpecificApplicationIdAVP"))      # Grouped, no vendor
    A.append(absavp.minimal("TerminalInformationAVP"))               # Grouped, vendor
    return A


def part_sequences(rep, arg):
    maxlen, k, nk = arg
    A = sequence_alphabet()
    hdr = (1, 0xc0, 316, 16777251, 0x01020304, 0x0a0b0c0d)
    n = idx = 0
    for ln in range(1, maxlen + 1):
        for seq in itertools.product(range(len(A)), repeat=ln):
            idx += 1
            if idx % nk != k:
                continue
            avps = [A[i] for i in seq]
            for path in ("ctor", "append", "extend", "setter", "setter-over-content", "cleanup-extend", "convert",
                         "convert-source"):
                check_message(rep, hdr, avps, path, "seq")
                n += 1
    rep.add(evaluations=n, distinct=n, sequence_cases=n)
    rep.sample({"sequence": [A[0].describe(), A[6].describe(), A[10].describe()], "path": "extend"})


GROUPED_CHAIN = {
    # (vendor?) -> a Grouped class that accepts arbitrary members (no mandatory members)
    False: "FailedAvpAVP",
    True: "SubscriptionDataAVP",
}


def part_nesting(rep, arg):
    maxdepth, = arg
    leaves = [Abs.of("UserNameAVP", "a", b"a"), Abs.of("OriginHostAVP", "ab", b"ab"),
              Abs.of("OriginRealmAVP", "abc", b"abc"), Abs.of("ResultCodeAVP", 1, (1).to_bytes(4, "big")),
              Abs.of("VisitedPlmnIdAVP", b"\x01\x02\x03", b"\x01\x02\x03"),
              Abs.generic(9999, 0x80, 7, b"\x01", "bytes")]
    hdr = (1, 0x80, 316, 16777251, 5, 6)
    n = 0
    for depth in range(1, maxdepth + 1):
        for pattern in itertools.product((False, True), repeat=depth):
            for leaf in leaves:
                for width in (1, 2):
                    node = leaf
                    for v in reversed(pattern):
                        members = [node] if width == 1 else [node, leaf]
                        node = Abs.grouped(GROUPED_CHAIN[v], members)
                    check_avp(rep, node, "nest")
                    check_message(rep, hdr, [node], "ctor", "nest-msg")
                    check_message(rep, hdr, [leaf, node, leaf], "append", "nest-msg")
                    n += 3
    rep.add(evaluations=n, distinct=n, nesting_cases=n)
    rep.sample({"nesting": Abs.grouped("FailedAvpAVP", [Abs.grouped("SubscriptionDataAVP", [leaves[0]])]).describe()})


# -- Grouped AVPs built by a sequence of container operations ------------------------------------------------
# "The data of a Grouped AVP is the concatenation of its members' encodings" however the member list came about:
# every operation sequence up to a depth over a member alphabet in which one leaf's bytes also occur inside a
# nested member and one leaf has an equal twin.

def _group_letters():
    a = Abs.of("ProxyHostAVP", "h", b"h")
    b = Abs.of("ResultCodeAVP", 1, (1).to_bytes(4, "big"))
    c = Abs.of("ErrorMessageAVP", "xyzzy", b"xyzzy")
    nested = Abs.grouped("ProxyInfoAVP", [Abs.of("ProxyHostAVP", "h", b"h"), Abs.of("ProxyStateAVP", b"s", b"s")])
    return {"a": a, "a2": Abs.of("ProxyHostAVP", "h", b"h"), "b": b, "c": c, "n": nested}


def _group_ops(depth_left, size):
    ops = [("append", x) for x in ("a", "a2", "b", "n")] + [("extend", ("n", "a")), ("extend", ("c", "b")),
                                                             ("assign", ("b", "c")), ("assign", ("n", "a", "b")), ("cleanup",)]
    for i in range(min(size, 3)):
        ops.append(("pop", i))
        ops.append(("setitem", i, "c"))
        ops.append(("setitem", i, "n"))
    return ops


def part_grouped_ops(rep, arg):
    import itertools as it
    maxdepth, k, nk = arg
    L = _group_letters()
    n = 0
    idx = 0

    def run_seq(seq):
        """-> (group object, model list of Abs) or None when an operation is not applicable"""
        g = Abs.grouped("FailedAvpAVP", []).build()
        model = []
        for op in seq:
            if op[0] == "append":
                g.append(L[op[1]].build()); model.append(L[op[1]])
            elif op[0] == "extend":
                g.extend([L[x].build() for x in op[1]]); model += [L[x] for x in op[1]]
            elif op[0] == "assign":
                g.avps = [L[x].build() for x in op[1]]; model = [L[x] for x in op[1]]
            elif op[0] == "cleanup":
                g.cleanup(); model = []
            elif op[0] == "pop":
                if op[1] >= len(model):
                    return None
                target = g.avps[op[1]]
                keys = [kk for kk, v in vars(g).items() if v is target]
                if len(keys) != 1:
                    return g, model, f"member {op[1]} has {len(keys)} names"
                g.pop(keys[0]); del model[op[1]]
                # which of two equal twins went is the library's choice (not an encoding matter): the model follows
                # the order the object now lists, so that later index operations mean the same member in both
                actual = [m.dump() for m in g.avps]
                if sorted(actual) == sorted(x.expected() for x in model):
                    pool = list(model)
                    model = []
                    for b in actual:
                        i = next(i for i, x in enumerate(pool) if x.expected() == b)
                        model.append(pool.pop(i))
            elif op[0] == "setitem":
                if op[1] >= len(model):
                    return None
                g[op[1]] = L[op[2]].build(); model[op[1]] = L[op[2]]
        return g, model, None

    for depth in range(1, maxdepth + 1):
        def expand(prefix, size):
            if len(prefix) == depth:
                yield prefix
                return
            for op in _group_ops(depth - len(prefix), size):
                if op[0] in ("pop", "setitem") and op[1] >= size:
                    continue
                ns = size
                if op[0] == "append": ns = size + 1
                elif op[0] == "extend": ns = size + len(op[1])
                elif op[0] == "assign": ns = len(op[1])
                elif op[0] == "cleanup": ns = 0
                elif op[0] == "pop": ns = size - 1
                yield from expand(prefix + [op], ns)
        for seq in expand([], 0):
            idx += 1
            if idx % nk != k:
                continue
            n += 1
            wit = {"part": "grouped-ops", "ops": [list(o) for o in seq]}
            shape = "+".join(o[0] for o in seq)
            try:
                res = run_seq(seq)
            except BaseException as e:  # noqa
                rep.violation(f"C01:grouped-ops:raises-{type(e).__name__}:{shape}", f"{seq}: {type(e).__name__}: {e}", wit)
                continue
            if res is None:
                continue
            g, model, naming = res
            exp = Abs.grouped("FailedAvpAVP", model).expected()
            try:
                got = g.dump()
                members = [m.dump() for m in g.avps]
            except BaseException as e:  # noqa
                rep.violation(f"C01:grouped-ops:dump-raises-{type(e).__name__}:{shape}", f"{seq}: {type(e).__name__}: {e}", wit)
                continue
            # which of two equal twins a pop by key removes is not an encoding matter: the member list is
            # compared as a multiset, the data with the encoding of the members as the object lists them
            if sorted(members) != sorted(m.expected() for m in model):
                rep.violation(f"C01:grouped-ops:member-list:{shape}",
                              f"after {seq} the member list is {[m.hex()[:24] for m in members]}, expected "
                              f"{[m.expected().hex()[:24] for m in model]}", wit)
            elif got != refcodec.enc_avp((279, 0x40, None, b"".join(members))):
                exp = refcodec.enc_avp((279, 0x40, None, b"".join(members)))
                rep.violation(f"C01:grouped-ops:data-not-concatenation:{shape}",
                              f"after {seq} the Grouped AVP dumps {got.hex()}, the encoding of its members is {exp.hex()}", wit)
            else:
                # ... and inside a message
                from bromelia.base import DiameterMessage, DiameterHeader
                m = DiameterMessage(DiameterHeader(flags=0x80, command_code=316, application_id=16777251, hop_by_hop=5, end_to_end=6),
                                    avps=[g])
                want = refcodec.enc_msg((1, 0x80, 316, 16777251, 5, 6, [(279, 0x40, None, b"".join(members))]))
                if m.dump() != want:
                    rep.violation(f"C01:grouped-ops:message:{shape}", f"after {seq} the message holding the group dumps "
                                  f"{m.dump().hex()[:96]}.., expected {want.hex()[:96]}..", wit)
    rep.add(evaluations=n, distinct=n, grouped_operation_sequences=n)
    rep.sample({"grouped_ops": [["append", "n"], ["append", "a"], ["pop", 1]]})


def part_typed(rep, arg):
    """Typed command classes built with their default arguments where that is possible; the full
    argument space of the typed classes is C09's job, which re-uses the same reference encoder."""
    try:
        from checks import c09
    except ImportError:
        return
    c09.typed_encoding_cases(rep)


def _shard(rep, arg):
    kind, payload = arg
    {"generic": part_generic, "classes": part_classes, "headers": part_headers,
     "sequences": part_sequences, "nesting": part_nesting, "typed": part_typed, "grouped-ops": part_grouped_ops}[kind](rep, payload)


def run(report, tier, seed):
    thorough = tier == "thorough"
    shards = []
    for code in [0, 1, 263, 9999, 2 ** 32 - 1]:
        shards.append(("generic", ([code],)))
    names = [e["class"] for e in absavp.REFDICT]
    k = seed % len(names)
    names = names[k:] + names[:k]
    per = 8
    for i in range(0, len(names), per):
        shards.append(("classes", (names[i:i + per], thorough)))
    nk = 8 if thorough else 2
    for k in range(nk):
        shards.append(("headers", (tier, k, nk)))
    nk = 64 if thorough else 8
    for k in range(nk):
        shards.append(("sequences", (4 if thorough else 3, k, nk)))
    shards.append(("nesting", (5 if thorough else 3,)))
    shards.append(("typed", None))
    nk = 16 if thorough else 4
    for k in range(nk):
        shards.append(("grouped-ops", (4 if thorough else 3, k, nk)))
    core.run_shards(report, _shard, shards)
    # every class of the library must be in the frozen dictionary (additions are covered or flagged)
    from bromelia.base import DiameterAVP
    import bromelia.avps  # noqa
    for cls in DiameterAVP.__subclasses__():
        if cls.__name__ not in absavp.BY_CLASS:
            report.violation(f"C01:class-not-in-refdict:{cls.__name__}",
                             f"dictionary class {cls.__name__} has no row in the frozen reference "
                             f"dictionary; its encoding cannot be judged", {"part": "refdict", "cls": cls.__name__})
    return {"classes": len(names)}


def replay(w):
    rep = core.Report("C01")
    if w["part"] == "avp":
        a = Abs.from_description(w["avp"])
        exp = a.expected()
        try:
            got = a.build().dump()
        except BaseException as e:  # noqa
            got = None
            print("raised", type(e).__name__, e)
        print("expected", exp.hex())
        print("got     ", got.hex() if got is not None else None)
        return got != exp
    if w["part"] == "header":
        hdr = tuple(w["header"])
        part_headers_one = refcodec.enc_msg(hdr + ([],))
        from bromelia.base import DiameterHeader
        h = DiameterHeader(version=hdr[0], flags=hdr[1], command_code=hdr[2], application_id=hdr[3],
                           hop_by_hop=hdr[4], end_to_end=hdr[5])
        print("expected", part_headers_one.hex(), "got", h.dump().hex())
        return h.dump() != part_headers_one
    if w["part"] == "message":
        avps = [Abs.from_description(d) for d in w["avps"]]
        check_message(rep, tuple(w["header"]), avps, w["path"], "replay", w.get("forms", "int"))
        for v in rep.violations.values():
            print(v.signature, v.what)
        return bool(rep.violations)
    if w["part"] == "typed":
        from checks import c09
        return c09.replay(w)
    if w["part"] == "grouped-ops":
        global _group_ops
        seq = [tuple(tuple(x) if isinstance(x, list) else x for x in o) for o in w["ops"]]
        saved = _group_ops
        want = list(seq)
        _group_ops = lambda d, size: [want[len(want) - d]] if d <= len(want) else []   # noqa: E731
        try:
            part_grouped_ops(rep, (len(seq), 0, 1))
        finally:
            _group_ops = saved
        for v in rep.violations.values():
            print(v.signature, v.what)
        return bool(rep.violations)
    print(w)
    return True
