# -*- coding: utf-8 -*-
"""C08 - Every way a connection ends leaves the node closed, released and restartable (SCHED).

Real node on the virtual runtime; the connection is taken to a chosen point of its life by the real
handshake (deterministic prefix), then a termination cause is injected and the schedule explorer enumerates
every schedule with <= d deviations; at quiescence the node must be Closed, its sockets released, its threads
gone, blocked application calls returned, no lock held, and a second start() on the same object must reach
Open again.
"""
from vk import core
from vk.vrt import explore, node, shims
from checks.c04 import SHARED_NODE

LEVEL = "model_checking"
RULE = ("stateless schedule exploration: termination cause in {local close(), DPR from the peer, peer disconnect, "
        "refused connection, non-CEA while awaiting the CEA, DPA while Closing, peer disconnect instead of the DPA} x "
        "life point in {connecting, awaiting CEA, idle Open, Open with unread inbound application messages, Open with "
        "just-submitted outbound messages, Open with an application thread blocked in get_message(), Closing} x role "
        "{client, server}: every (cause, life point, role) combination at d = 0 and a curated subset at d <= 1 "
        "(thorough: all at d <= 1, four at d <= 2); followed in the same execution by start() on the same object and "
        "a second scripted handshake. A state = one executed schedule")
ASSUMPTIONS = [
    "scheduling points and fake network as in C04/C05; the handshake up to the life point is a deterministic prefix",
    "local close() is only issued once the connection is Open (before that there is nothing to disconnect)",
    "how long closing takes (SLEEP_TIMER, set to 1 virtual second) and the value returned to an unblocked consumer are "
    "not constrained; quiescence is judged after the longest timer plus the stall length",
]

LIFE = ["starting", "connecting", "await-cea", "election", "accepted", "open-idle", "open-inbound", "open-outbound", "open-consumer", "open-sender", "closing"]
CAUSES = {
    # "close-early": the application stops the node before the connection is Open; the peer, which cannot know,
    # goes on with the handshake and answers a DPR if it gets one
    # "starting": the deviations cover start() itself and the handshake (client role), then a plain local close
    # "close-during-start": another application thread calls close() half a second into start()
    "starting": ["close", "close-during-start"],
    # "close-early-silent": the same, but the peer stays silent (never accepts / never answers the CER)
    "connecting": ["refuse", "close-early", "close-early-silent"],
    # "close-racing-cea": the application's close() and the peer's CEA happen at the same time
    "await-cea": ["eof", "rst", "non-cea", "close-early", "close-early-silent", "close-racing-cea", "eof-partial"],
    # the configured peer's own CER arrived while the node awaited its CEA (RFC 6733 election, not implemented by
    # the library: the state just has to be left when the connection ends); "close-plain" = close(), nothing to answer
    "election": ["eof", "rst", "close-plain"],
    # server role: the peer has connected but not yet sent its CER
    "accepted": ["eof", "rst"],
    # "close-silent": local close, the peer keeps the connection but never answers the DPR
    # "eof-partial": the peer goes away in the middle of a message (a few bytes of it arrive, then the FIN)
    # "close-chatty": the same, and the peer goes on sending watchdog requests (more often than the watchdog timeout)
    "open-idle": ["close", "dpr", "eof", "rst", "close-silent", "close-chatty", "eof-partial"],
    "open-inbound": ["close", "dpr", "eof"],
    "open-outbound": ["close", "dpr", "eof", "rst"],
    "open-consumer": ["close", "dpr", "eof", "rst", "eof-partial"],
    # an application thread keeps submitting messages while the connection ends
    "open-sender": ["close", "dpr", "eof", "rst"],
    "closing": ["dpa", "eof", "rst"],
}


class Termination(explore.Scenario):
    name = "termination"
    horizon = 150.0
    max_points = 60000
    idle_window = 10.0
    shared = SHARED_NODE
    auto_shared = True

    def __init__(self, **params):
        super().__init__(**params)
        if params.get("cause") in ("close-silent", "close-chatty"):
            self.idle_window = 40.0      # nothing happens while the node waits for the DPA that never comes

    def driver(self, rt):
        P = self.params
        role, life, cause = P["role"], P["life"], P["cause"]
        obs = rt.observations
        T = shims.Thread
        n = node.Node(rt, role, watchdog=(4 if cause in ("close-silent", "close-chatty") else 30), transport=P.get("transport", "tcp"))
        d = n.diameter
        obs.update(reached=False, consumer_returned=None, restart=None)
        consumer_out = {}

        # ---- reach the life point (deterministic prefix) --------------------------------------------------
        def start_node():
            # the SCTP client connects in blocking mode: start() returns only once the peer has accepted
            if role == "server" or P.get("transport") == "sctp":
                t = T(target=n.start, name="app-start")
                t.start()
                return t
            n.start()
            return None

        if life == "starting":
            if role == "server":
                rt.stop("not-applicable")
            rt.begin_exploration()
            # the peer is there before the node starts (a listening socket completes the connection at once)
            early_pt = T(target=n.peer_handshake, name="peer-handshake")
            early_pt.start()
            if cause == "close-during-start":
                def closer():
                    import bromelia.exceptions as X
                    n.tm.sleep(0.6)
                    for _attempt in range(30):
                        try:
                            d.close()
                            return
                        except BaseException as e:  # noqa
                            if isinstance(e, shims.sched.Abort):
                                raise
                            if type(e).__module__ != X.__name__:
                                obs["closer_leak"] = f"{type(e).__name__}: {e}"
                                return
                        # refused (the state machine has not left Closed yet): the application tries again
                        n.tm.sleep(0.5)
                T(target=closer, name="app-closer").start()
        try:
            app_t = start_node()
        except BaseException as e:  # noqa
            if isinstance(e, shims.sched.Abort) or life != "starting":
                raise
            app_t = None
            obs["start_raised"] = f"{type(e).__name__}: {e}"
        if life == "connecting":
            if role == "server":
                rt.stop("not-applicable")
            n.peer.wait_connect(timeout=5.0)
            if P.get("early_consumer"):
                # an application thread already waits for messages while the connection is still coming up
                def early_consume():
                    try:
                        consumer_out["value"] = repr(d.get_message())[:60]
                    except BaseException as e:  # noqa
                        if isinstance(e, shims.sched.Abort):
                            raise
                        consumer_out["value"] = f"raised {type(e).__name__}"
                    consumer_out["returned"] = True
                early = T(target=early_consume, name="app-consumer")
                early.start()
                n.settle(0.3)
            if cause == "close-early":
                n.settle(0.5)        # the state machine has left Closed (Wait-Conn-Ack): close() is accepted
            elif cause == "close-early-silent":
                n.settle(1.25)       # ... and has been polling the pending connection for a few ticks
        elif life == "accepted":
            if role != "server":
                rt.stop("not-applicable")
            n.peer.connect((node.LOCAL["ip"], node.LOCAL["port"]))
            if app_t is not None:
                app_t.join()
            n.settle(1.0)
        elif life in ("await-cea", "election"):
            if role == "server":
                rt.stop("not-applicable")
            n.peer.wait_connect(timeout=5.0)
            n.peer.accept()
            n.wait_messages(1, timeout=10.0)
            n.settle(1.0)
            if life == "election":
                n.peer.send(node.cer())
                n.settle(1.0)
        else:
            if life == "starting":
                pt = early_pt
            else:
                pt = T(target=n.peer_handshake, name="peer-handshake")
                pt.start()
            if cause == "close-during-start":
                # the connection may or may not have come up before the close: either way the node ends Closed
                n.settle(rt.stall_time + 6.0)
                if n.state() != "Closed":
                    h = None
                    dprs = [m for m in node.split_stream(n.peer.received())[0] if node.header_of(m)["code"] == 282] if n.peer.conn else []
                    if dprs:
                        h = node.header_of(dprs[-1])
                        n.peer.send(node.dpa(h["hbh"], h["e2e"]))
                    n.settle(8.0)
            else:
                pt.join()
                if app_t is not None:
                    app_t.join()
                if not n.wait_open():
                    rt.stop("handshake-failed")
            n.settle(1.5)
            if life == "open-inbound":
                n.peer.send(node.app_request(1) + node.app_request(2))
                n.settle(1.5)
            elif life == "closing":
                d.close()
                n.wait_messages(2 if role == "client" else 2, timeout=6.0)
                n.settle(0.5)
        obs["reached"] = True
        obs["state_before"] = n.state()
        conn1 = n.peer.conn
        assoc1 = d._association

        consumer = None
        if life == "open-consumer":
            nconsumers = P.get("consumers", 1)
            done_consumers = []

            def consume(i=0):
                consumer_out["value"] = repr(d.get_message())[:60]
                done_consumers.append(i)
                consumer_out["returned"] = len(done_consumers) == nconsumers
            consumer = T(target=consume, name="app-consumer")
            consumer.start()
            for i in range(1, nconsumers):
                # further application threads blocked in get_message() on the same connection
                T(target=consume, args=(i,), name=f"app-consumer{i}").start()
            n.settle(0.5)

        # ---- the termination cause, under exploration -------------------------------------------------------
        rt.begin_exploration()
        sender = None
        sender_out = {}
        if life == "open-outbound":
            from checks.c05 import make_message
            d.send_messages([make_message(1, 0), make_message(1, 1)])
        elif life == "open-sender":
            from checks.c05 import make_message

            def submit():
                import bromelia.exceptions as X
                for i in range(3):
                    try:
                        d.send_message(make_message(2, i))
                    except BaseException as e:  # noqa
                        if isinstance(e, shims.sched.Abort):
                            raise
                        if type(e).__module__ != X.__name__:
                            sender_out["leak"] = f"{type(e).__name__}: {e}"
                    n.tm.sleep(0.25)
                sender_out["returned"] = True
            sender = T(target=submit, name="app-sender")
            sender.start()
        try:
            if cause == "refuse":
                n.peer.refuse()
            elif cause == "eof":
                n.peer.close()
            elif cause == "rst":
                n.peer.close(reset=True)
            elif cause == "eof-partial":
                whole = node.app_request(3) if life != "await-cea" else node.cea(1, 2)
                n.peer.send(whole[:27])
                n.peer.wait_for(lambda: not n.peer.conn.inbox, "partial-read", timeout=10.0)
                n.peer.close()
            elif cause == "close-racing-cea":
                got = n.wait_messages(1, timeout=10.0)
                h = node.header_of(got[0]) if got else {"hbh": 1, "e2e": 2}

                assoc_now = d._association

                def cer_answered():
                    return not any(m.header.get_command_code() == 257 for m in list(assoc_now.pending_requests.values()))

                def closer2():
                    import bromelia.exceptions as X
                    # the application stops the node at the moment the state machine is dealing with the CEA: this
                    # thread becomes runnable when the CER has found its answer (the state machine thread goes on
                    # by default; taking it off the CPU there is one deviation)
                    if not cer_answered():
                        rt.block("app.wait", "cea-being-handled", pred=cer_answered, timeout=5.0)
                    try:
                        d.close()
                    except BaseException as e:  # noqa
                        if isinstance(e, shims.sched.Abort):
                            raise
                        if type(e).__module__ != X.__name__:
                            obs["close_raised"] = f"{type(e).__name__}: {e}"
                ct = T(target=closer2, name="app-closer")
                ct.start()
                n.peer.send(node.cea(h["hbh"], h["e2e"]))
                ct.join()
                # the peer answers a DPR if one comes
                if n.peer.wait_for(lambda: any(node.header_of(m)["code"] == 282 for m in node.split_stream(n.peer.received())[0]),
                                   "dpr-seen", timeout=rt.stall_time + 8.0):
                    dprs = [m for m in node.split_stream(n.peer.received())[0] if node.header_of(m)["code"] == 282]
                    hh = node.header_of(dprs[-1])
                    n.peer.send(node.dpa(hh["hbh"], hh["e2e"]))
            elif cause == "non-cea":
                n.peer.send(node.dwr(5, 6))
            elif cause == "close":
                d.close()
                # the peer answers the DPR
                if n.peer.wait_for(lambda: any(node.header_of(m)["code"] == 282 for m in node.split_stream(n.peer.received())[0]),
                                   "dpr-seen", timeout=rt.stall_time + 6.0):
                    dprs = [m for m in node.split_stream(n.peer.received())[0] if node.header_of(m)["code"] == 282]
                    h = node.header_of(dprs[-1])
                    n.peer.send(node.dpa(h["hbh"], h["e2e"]))
            elif cause in ("close-early-silent", "close-plain"):
                d.close()
            elif cause == "close-early":
                try:
                    d.close()
                except BaseException as e:  # noqa
                    if isinstance(e, shims.sched.Abort):
                        raise
                    obs["close_raised"] = f"{type(e).__name__}: {e}"
                if life == "connecting":
                    n.peer.accept()
                got = n.wait_messages(1, timeout=10.0)
                if got:
                    h = node.header_of(got[0])
                    n.peer.send(node.cea(h["hbh"], h["e2e"]))
                    if n.peer.wait_for(lambda: any(node.header_of(m)["code"] == 282 for m in node.split_stream(n.peer.received())[0]),
                                       "dpr-seen", timeout=rt.stall_time + 8.0):
                        dprs = [m for m in node.split_stream(n.peer.received())[0] if node.header_of(m)["code"] == 282]
                        h = node.header_of(dprs[-1])
                        n.peer.send(node.dpa(h["hbh"], h["e2e"]))
            elif cause == "close-chatty":
                d.close()
                for i in range(24):
                    if n.peer.conn.node_closed:
                        break
                    n.peer.send(node.dwr(0x0e200000 + i, 0x0f200000 + i))
                    n.settle(1.0)
                # 24 s of chatter against a 4 s watchdog timeout: the node has stopped waiting for the DPA long ago
                obs["chatty_state"] = n.state()
            elif cause == "close-silent":
                d.close()
                n.settle(3 * 4 + 6.0)
            elif cause == "dpr":
                n.peer.send(node.dpr(7, 8))
            elif cause == "dpa":
                dprs = [m for m in node.split_stream(n.peer.received())[0] if node.header_of(m)["code"] == 282]
                h = node.header_of(dprs[-1]) if dprs else {"hbh": 1, "e2e": 2}
                n.peer.send(node.dpa(h["hbh"], h["e2e"]))
        except BaseException as e:  # noqa
            if isinstance(e, shims.sched.Abort):
                raise
            obs["cause_raised"] = f"{type(e).__name__}: {e}"
        # ---- quiescence ---------------------------------------------------------------------------------------
        n.settle(rt.stall_time + 5.0)
        if P.get("transport") == "sctp" and life == "connecting" and cause == "close-early-silent":
            # the application thread is inside the blocking connect() until the kernel gives up on the silent peer
            from vk.vrt import fakenet
            n.settle(fakenet.SCTP_CONNECT_TIMEOUT)
        a = assoc1
        lib_alive = [f"{t.name}@{t.wait_label}" for t in rt.threads
                     if t.library and t.state != "done" and not t.name.startswith(("app-consumer", "app-sender"))]
        socks = [s for s in rt.net.sockets]
        obs["after"] = {
            "state": n.state(),
            "threads_alive": lib_alive,
            "open_sockets": [repr(s) + ("(listening)" if s.listening else "") for s in socks if not s.closed],
            "registered": sum(len(sel._map) for sel in rt.net.selectors),
            "locks": rt.stuck_locks(),
            "consumer_returned": consumer_out.get("returned") if (consumer is not None or P.get("early_consumer")) else None,
            "transport_released": (a.transport is None) if a is not None else None,
            "sender_returned": sender_out.get("returned") if sender is not None else None,
            "sender_leak": sender_out.get("leak"),
        }
        # ---- restart on the same object ---------------------------------------------------------------------------
        if obs["after"]["state"] == "Closed" and not lib_alive:
            n.peer.conn = None
            try:
                app_t = start_node()
                pt = T(target=n.peer_handshake, name="peer-handshake2")
                pt.start()
                pt.join()
                if app_t is not None:
                    app_t.join()
                obs["restart"] = "open" if n.wait_open(timeout=15.0) else f"state {n.state()}"
            except BaseException as e:  # noqa
                if isinstance(e, shims.sched.Abort):
                    raise
                obs["restart"] = f"raised {type(e).__name__}: {e}"
        rt.stop()

    def oracle(self, rt):
        P = self.params
        obs = rt.observations
        if rt.verdict in ("not-applicable",):
            return []
        shape = f"{P['role']}:{P['life']}:{P['cause']}" + (":sctp" if P.get("transport") == "sctp" else "") + (
            f":consumers{P['consumers']}" if P.get("consumers", 1) > 1 else "") + (":early-consumer" if P.get("early_consumer") else "")
        if P["life"] == "starting" and (rt.verdict == "handshake-failed" or not obs.get("reached")):
            died = [(t.name, type(t.exc).__name__) for t in rt.crashed_threads() if t.library]
            return [(f"C08:start-never-opens:{shape}", f"start() with a willing peer did not reach Open ({rt.verdict}); threads "
                                                       f"that died: {died}; locks held: {rt.final_locks}")]
        if rt.verdict == "handshake-failed" or not obs.get("reached"):
            return [(f"C08:prefix-failed:{shape}", f"could not reach the life point ({rt.verdict})")]
        errs = []
        after = obs.get("after")
        if after is None:
            stuck = [f"{n}@{w}" for n, st, w, lib in rt.final_states if st != "done" and w and "sleep" not in w and "select" not in w]
            return [(f"C08:{rt.verdict}:{shape}", f"execution ended in {rt.verdict} before quiescence; blocked: {stuck}; "
                                                  f"locks: {rt.final_locks}")]
        if P["cause"] == "close-chatty" and obs.get("chatty_state") != "Closed":
            errs.append((f"C08:not-closed-while-peer-talks:{shape}",
                         f"state is {obs.get('chatty_state')} 24 s after close() (WATCHDOG_TIMEOUT 4 s): the peer never answers "
                         f"the DPR but keeps sending watchdog requests"))
        if after["state"] != "Closed":
            errs.append((f"C08:not-closed:{shape}", f"state is {after['state']} after the connection ended ({P['cause']} at {P['life']})"))
        if after["threads_alive"]:
            names = sorted({t.split("@")[0].rstrip("0123456789") for t in after["threads_alive"]})
            errs.append((f"C08:threads-alive:{'+'.join(names)}:{shape}", f"worker threads still alive: {after['threads_alive']}"))
        if after["open_sockets"] or after["registered"]:
            errs.append((f"C08:sockets-not-released:{shape}", f"open sockets {after['open_sockets']}, {after['registered']} selector registrations"))
        if after["locks"]:
            errs.append((f"C08:lock-held:{shape}", f"locks still held: {after['locks']}"))
        if after["consumer_returned"] is False or ((P["life"] == "open-consumer" or P.get("early_consumer")) and not after["consumer_returned"]):
            errs.append((f"C08:consumer-still-blocked:{shape}", "the application thread blocked in get_message() did not return"))
        if after.get("sender_returned") is not None and not after["sender_returned"]:
            errs.append((f"C08:sender-still-blocked:{shape}", "the application thread submitting messages did not return"))
        if after.get("sender_leak"):
            errs.append((f"C08:sender-got-{after['sender_leak'].split(':')[0]}:{shape}",
                         f"send_message() raised a non-library error while the connection ended: {after['sender_leak']}"))
        if not errs and obs.get("restart") != "open":
            errs.append((f"C08:not-restartable:{shape}", f"second start() on the same object: {obs.get('restart')}"))
        # threads that end by an exception during the shutdown race (selector.modify after unregister, recv on the
        # closed socket) have terminated, which is what the statement asks for: counted, not judged
        return errs

    def outcome(self, rt):
        a = rt.observations.get("after") or {}
        return (rt.verdict, a.get("state"), tuple(sorted(t.split("@")[0] for t in a.get("threads_alive", []))),
                a.get("consumer_returned"), rt.observations.get("restart"))


def all_cases():
    for role in ("client", "server"):
        for life in LIFE:
            if role == "server" and life in ("starting", "connecting", "await-cea", "election"):
                continue
            if role == "client" and life == "accepted":
                continue
            for cause in CAUSES[life]:
                yield dict(role=role, life=life, cause=cause)


def sctp_cases():
    """The SCTP transport classes (fake pysctp over the same virtual network): they override start(), _read(),
    _write() and test_connection(); everything else is shared with the TCP classes."""
    for p in all_cases():
        yield dict(p, transport="sctp")


def plan(tier):
    # two application threads blocked in get_message() when the connection ends
    for role, cause in (("server", "eof"), ("client", "close"), ("server", "dpr"), ("client", "rst")):
        yield dict(role=role, life="open-consumer", cause=cause, consumers=2), (1 if tier == "thorough" and (role, cause) == ("server", "eof") else 0)
    # an application thread already waiting in get_message() when the connection attempt is refused
    yield dict(role="client", life="connecting", cause="refuse", early_consumer=True), 0
    yield dict(role="client", life="connecting", cause="refuse", early_consumer=True, transport="sctp"), 0
    for p in sctp_cases():
        key = (p["role"], p["life"], p["cause"])
        deep_sctp = {("client", "connecting", "refuse"), ("client", "open-outbound", "rst"), ("server", "open-idle", "eof"),
                     ("client", "starting", "close")}
        yield p, 0      # (d <= 1 on four of them is planned for the thorough tier; not completed in this session)
    deep = {("client", "open-idle", "close"), ("server", "open-consumer", "eof"), ("server", "open-idle", "dpr"),
            ("client", "open-outbound", "close"), ("client", "await-cea", "eof"), ("server", "closing", "eof"),
            ("client", "open-sender", "close"), ("server", "open-sender", "eof"), ("server", "open-outbound", "rst"),
            ("client", "await-cea", "close-early"), ("server", "accepted", "eof"), ("client", "starting", "close"), ("client", "starting", "close-during-start"),
            ("client", "await-cea", "close-racing-cea")}
    for p in all_cases():
        key = (p["role"], p["life"], p["cause"])
        if tier == "quick":
            yield p, (1 if key in deep else 0)
        elif p["cause"] in ("eof-partial", "close-chatty", "close-plain") or p["life"] == "election":
            # the causes / life points added last keep the bounds of the quick tier (their d <= 1 space was not
            # completed in this session)
            yield p, (1 if key in deep else 0)
        else:
            # d = 2 costs about 300 000 executions per scenario (600-point executions): two scenarios
            yield p, (2 if key in {("client", "open-idle", "close"), ("server", "open-consumer", "eof")} else 1)


def _shard(rep, arg):
    items = arg
    stats = {"executions": 0, "points": 0}
    for params, bound, k, n in items:
        scn = Termination(**params)
        if k == 0:
            base = explore.selfcheck_determinism(scn) if bound >= 1 else explore.execute(scn)
            explore.run_one(scn, (), rep, stats)
            rep.sample({"scenario": scn.name, "params": params, "deviation_bound": bound,
                        "points_after_cause": len(base.points) - (base.explore_from or 0)})
        else:
            base = explore.execute(scn)
        if bound >= 1:
            firsts = explore.successors(base, ())
            explore.explore_subtree(scn, firsts[k::n], bound, rep, stats)
    rep.add(evaluations=stats["executions"], distinct=stats["executions"], executions=stats["executions"],
            scheduling_points=stats["points"])


def run(report, tier, seed):
    work = []
    nscn = 0
    for params, bound in plan(tier):
        nscn += 1
        n = 1 if bound == 0 else (8 if bound == 1 else 64)
        for k in range(n):
            work.append((params, bound, k, n))
    cheap = [w for w in work if w[1] == 0]
    rest = [w for w in work if w[1] > 0]
    shards = [cheap[i::16] for i in range(16) if cheap[i::16]] + [[w] for w in rest]
    k = seed % max(1, len(shards))
    shards = shards[k:] + shards[:k]
    core.run_shards(report, _shard, shards, shard_timeout=6000)
    c = report.counters
    return {"_level_keys": {"states": c.get("executions", 0), "transitions": c.get("scheduling_points", 0),
                            "traces_validated_against_impl": c.get("executions", 0)}, "scenarios": nscn}


def replay(w):
    scn = Termination(**w["params"])
    rt = explore.execute(scn, {int(i): int(a) for i, a in w["choices"]})
    errs = scn.oracle(rt)
    start = rt.explore_from or 0
    shown = 0
    for i, p in enumerate(rt.points[start:], start):
        if p.chosen or (p.kind not in ("sel.select", "time.sleep", "queue.empty", "queue.qsize") and shown < 200):
            shown += 1
            print(f"  [{i}] {p.thread:24s} {p.kind:14s} {p.label:28s} chosen={p.chosen} of {p.cands}")
    print("verdict:", rt.verdict, "| after:", rt.observations.get("after"), "| restart:", rt.observations.get("restart"))
    for sig, text in errs:
        print(sig, "|", text)
    return bool(errs)
