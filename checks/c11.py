# -*- coding: utf-8 -*-
"""C11 - A message's named AVP view, AVP list and length stay coherent under mutation (HIST).

Breadth-first search to closure over container-operation histories on real message objects (empty
DiameterMessage, typed DWR, typed S6a ULR). Every history is replayed on fresh objects; after every
operation the named view, the list, membership queries, the order (against a list-based reference
container) and the Message Length are checked.
"""
from vk import core, hist

LEVEL = "model_checking"
RULE = ("explicit-state BFS over histories of container operations {append, extend, pop(name), cleanup, "
        "avps=[..] (length 0..2), msg[i]=x, update_key(old,new), update_avps({..}), refresh} on a 5-letter AVP "
        "alphabet (two equal-valued twins, an unknown AVP, a Session-Id) with the list length capped, to "
        "closure of the canonical state space; a state = canonical (list letters, name->position map, length "
        "error, loaded flag); every transition executes the real operation on fresh real objects")
ASSUMPTIONS = [
    "an AVP object already in the list is not appended a second time (one object, one slot)",
    "operations rejected with an exception defined in bromelia.exceptions are no-ops for the reference",
    "which name a new duplicate receives is not constrained beyond uniqueness",
    "the Grouped-AVP container (GroupedType) is not part of the statement ('on a message')",
    "canonical form drops object identities in favour of alphabet letters; replaced objects (update_avps) "
    "are labelled by class and new value, which determines their future behaviour",
]

LETTERS = ["A", "A2", "B", "U", "S"]
PROBE_NAMES = ["user_name_avp", "user_name_avp__1", "origin_host_avp", "unknown_avp", "session_id_avp",
               "custom_avp", "host", "user_name_avp__2", "origin_realm_avp",
               # names of the container's own attributes are not AVPs
               "_header", "_avps", "_loaded"]
NEW_KEYS = ["custom_avp", "host", "_avps", "_header"]     # the last two: the container's own attributes as rename targets
UPDATES = [("user_name", "b"), ("origin_host", "x.example"), ("nonexistent", "v"), ("user_name__1", "c")]


def make_letter(letter):
    import bromelia.avps as A
    from bromelia.base import DiameterAVP
    if letter in ("A", "A2"):
        return A.UserNameAVP("a")
    if letter == "B":
        return A.OriginHostAVP("h")
    if letter == "U":
        return DiameterAVP(code=9999, flags=0, data=b"\x01\x02\x03")
    if letter == "S":
        return A.SessionIdAVP(b"s;1;2")
    raise ValueError(letter)


def is_avp_key(k):
    return k.endswith("_avp") or "_avp__" in k


def named_view(msg):
    """Every attribute of the message that refers to an AVP object, whatever the attribute is called
    (update_key accepts any new name)."""
    from bromelia.base import DiameterAVP
    return {k: v for k, v in msg.__dict__.items() if isinstance(v, DiameterAVP)}


class State:
    def __init__(self, kind):
        self.kind = kind
        self.labels = {}          # id(obj) -> label
        self.keep = []            # keep objects alive so ids stay unique
        self.pool = {}
        self.msg = None
        self.cap = 4

    def obj(self, letter):
        if letter not in self.pool:
            o = make_letter(letter)
            self.pool[letter] = o
            self.labels[id(o)] = letter
            self.keep.append(o)
        return self.pool[letter]

    def label(self, o):
        lab = self.labels.get(id(o))
        if lab is None:
            # an object the library created (update_avps): class + data decide its future
            # (generated Session-Ids differ on every call: the class alone decides their future)
            lab = (f"{type(o).__name__}:*" if type(o).__name__ == "SessionIdAVP"
                   else f"{type(o).__name__}:{(o.data or b'').hex()}")
            self.labels[id(o)] = lab
            self.keep.append(o)
        return lab

    def view(self):
        return named_view(self.msg)

    def lst(self):
        return self.msg.avps


def new_state(kind):
    from bromelia.base import DiameterMessage, DiameterHeader
    st = State(kind)
    if kind == "empty":
        st.msg = DiameterMessage(header=DiameterHeader(command_code=316, application_id=16777251))
    elif kind == "dwr":
        from bromelia.messages import DWR
        st.msg = DWR(origin_host="h0.example", origin_realm="r0")
    elif kind == "ulr":
        from bromelia.lib.etsi_3gpp_s6a import ULR
        st.msg = ULR(session_id=b"u;1;2", origin_host="h0.example", origin_realm="r0", destination_realm="dr",
                     user_name="user0", visited_plmn_id=b"\x01\x02\x03", rat_type=b"\x00\x00\x03\xec",
                     ulr_flags=34)
    elif kind == "loaded-empty":
        # a header-only message as the decoder returns it (what a relay starts from)
        st.msg = DiameterMessage.load(bytes.fromhex("01000014800001180000000000000001000000020"[:40]))[0]
    elif kind == "loaded-dwr":
        from bromelia.messages import DWR
        st.msg = DiameterMessage.load(DWR(origin_host="h0.example", origin_realm="r0").dump())[0]
    for i, o in enumerate(st.msg.avps):
        st.labels[id(o)] = f"I{i}"
        st.keep.append(o)
    st.cap = len(st.msg.avps) + 1
    return st


def lib_error(e):
    import bromelia.exceptions as X
    return type(e).__module__ == X.__name__


def apply_op(st, op):
    """Executes one operation on the real message. Returns ("ok"|"rejected"|"crash", exception)."""
    m = st.msg
    try:
        kind = op[0]
        if kind == "append":
            m.append(st.obj(op[1]))
        elif kind == "extend":
            m.extend([st.obj(op[1]), st.obj(op[2])])
        elif kind == "pop":
            m.pop(op[1])
        elif kind == "cleanup":
            m.cleanup()
        elif kind == "set_avps":
            m.avps = [st.obj(x) for x in op[1]]
        elif kind == "setitem":
            m[op[1]] = st.obj(op[2])
        elif kind == "update_key":
            m.update_key(op[1], op[2])
        elif kind == "update_avps":
            m.update_avps({op[1]: op[2]})
        elif kind == "refresh":
            m.refresh()
        else:
            raise ValueError(op)
        return "ok", None
    except BaseException as e:  # noqa
        return ("rejected" if lib_error(e) else "crash"), e


def check_invariants(st, before_list, before_view, op, outcome):
    """Oracle for the last step. Returns [(signature, text)]."""
    errs = []
    m = st.msg
    kind = op[0]
    view, lst = st.view(), st.lst()
    labs = [st.label(o) for o in lst]
    # --- reference container -------------------------------------------------------------------
    ref = list(before_list)
    replaced = {}
    if outcome == "ok":
        if kind == "append":
            ref.append(st.obj(op[1]))
        elif kind == "extend":
            ref += [st.obj(op[1]), st.obj(op[2])]
        elif kind == "pop":
            target = before_view[op[1]]
            ref = [o for o in ref if o is not target]
        elif kind == "cleanup":
            ref = []
        elif kind == "set_avps":
            ref = [st.obj(x) for x in op[1]]
        elif kind == "setitem":
            ref[op[1]] = st.obj(op[2])
        elif kind == "update_avps":
            key = op[1]
            name = (key.split("__")[0] + "_avp__" + key.split("__")[1]) if "__" in key else key + "_avp"
            if name in before_view:
                target = before_view[name]
                replaced = {i: target for i, o in enumerate(ref) if o is target}
    if len(lst) != len(ref):
        errs.append((f"C11:{kind}:list-length", f"list has {len(lst)} AVPs, reference container has {len(ref)}"))
    else:
        for i, (o, r) in enumerate(zip(lst, ref)):
            if i in replaced:
                if type(o) is not type(r):
                    errs.append((f"C11:{kind}:replacement-class", f"slot {i} became {type(o).__name__}"))
                continue
            if o is not r:
                what = "equal-earlier-sibling" if (kind == "pop" and o == r) else "order"
                errs.append((f"C11:{kind}:identity:{what}",
                             f"after {op} slot {i} holds {st.label(o)}, reference container holds {st.label(r)} "
                             f"(list {labs})"))
                break
    # --- view <-> list -------------------------------------------------------------------------
    ids_list = [id(o) for o in lst]
    ids_view = [id(o) for o in view.values()]
    if len(set(ids_list)) == len(ids_list):
        orphans = [k for k, o in view.items() if id(o) not in set(ids_list)]
        unnamed = [st.label(o) for o in lst if id(o) not in set(ids_view)]
        if orphans:
            errs.append((f"C11:{kind}:orphan-name", f"name(s) {orphans} refer to AVP objects that are not in the list {labs}"))
        if unnamed:
            errs.append((f"C11:{kind}:unnamed-avp", f"listed AVP(s) {unnamed} have no name in the view {sorted(view)}"))
        if len(set(ids_view)) != len(ids_view):
            errs.append((f"C11:{kind}:two-names", f"one AVP object is reachable under two names {sorted(view)}"))
    # --- membership queries ----------------------------------------------------------------------
    for name in set(PROBE_NAMES) | set(view):
        try:
            got = m.has_avp(name)
        except BaseException as e:  # noqa
            errs.append((f"C11:{kind}:has_avp-raises", f"has_avp({name!r}) raised {type(e).__name__}"))
            continue
        want = name in view
        if bool(got) != want and not errs:
            errs.append((f"C11:{kind}:has_avp:{'false-negative' if want else 'false-positive'}",
                         f"has_avp({name!r}) is {got}; names in view: {sorted(view)}; list {labs}"))
    # --- Message Length ---------------------------------------------------------------------------
    try:
        size = len(m.dump())
        if m.header.get_length() != size:
            errs.append((f"C11:{kind}:message-length", f"Message Length {m.header.get_length()} but the message "
                                                       f"serialises to {size} bytes (list {labs})"))
    except BaseException as e:  # noqa
        errs.append((f"C11:{kind}:dump-raises-{type(e).__name__}", f"dump() raised {e}"))
    if outcome == "crash":
        errs.append((f"C11:{kind}:crash", "operation raised a non-library exception"))
    return errs


PROFILES = {
    # tier -> kind -> (letters, list cap, new keys, updates, set_avps pairs?)
    "quick": {
        "empty": (["A", "A2", "B", "U"], 3, NEW_KEYS[1:], UPDATES[:1] + UPDATES[2:3], False),
        "dwr": (["A", "A2"], 3, NEW_KEYS[:1] + ["_avps"], UPDATES[:3], False),
        "ulr": (["A", "A2"], None, [], UPDATES[:3], False),
        # messages as the decoder returns them (the 'loaded' flag keeps the wire length until the content changes)
        "loaded-empty": (["A", "B"], 2, NEW_KEYS[:1], UPDATES[:1], False),
        "loaded-dwr": (["A"], 3, NEW_KEYS[:1] + ["_header", "dump"], UPDATES[:2], False),
    },
    "thorough": {
        "loaded-empty": (["A", "A2", "B"], 3, NEW_KEYS[:1], UPDATES[:1] + UPDATES[2:3], False),
        "loaded-dwr": (["A", "A2"], 4, NEW_KEYS[:1], UPDATES[:3], False),
        "empty": (LETTERS, 3, NEW_KEYS[1:], UPDATES[:1] + UPDATES[2:3], True),
        "empty4": (["A", "A2", "B"], 4, NEW_KEYS[:1], UPDATES[:1] + UPDATES[2:3], False),
        "dwr": (["A", "A2", "U"], 4, NEW_KEYS[:1] + ["_avps", "_header"], UPDATES, False),
        "ulr": (["A", "A2"], None, [], UPDATES, False),
    },
}


class ContainerModel:
    def __init__(self, kind, cap, profile=None):
        self.kind, self.cap = kind, cap
        self.profile = profile or PROFILES["thorough"][kind]
        if cap is None:
            self.cap = self.profile[1]

    def initial(self):
        return [()]

    def build(self, history):
        st = new_state(self.kind)
        if self.cap is not None:
            st.cap = self.cap
        for op in history:
            apply_op(st, op)
        return st

    def enabled(self, st):
        if getattr(st, "broken", False):
            return []
        letters, _cap, new_keys, updates, pairs = self.profile
        lst, view = st.lst(), st.view()
        present = {st.label(o) for o in lst}
        free = [x for x in letters if x not in present]
        ops = []
        room = st.cap - len(lst)
        if room >= 1:
            ops += [("append", x) for x in free]
        if room >= 2 and self.kind in ("empty", "loaded-empty"):
            ops += [("extend", x, y) for x in free for y in free if x != y]
        names = sorted(view)
        if self.kind == "ulr":
            # the typed S6a request carries 8 AVPs: pops are limited to three of the originals plus
            # whatever was appended, which keeps the subset lattice small
            names = [n for n in names if n in ("session_id_avp", "origin_host_avp", "user_name_avp",
                                               "user_name_avp__1", "user_name_avp__2")]
        ops += [("pop", name) for name in names]
        ops.append(("cleanup",))
        if self.kind == "empty":
            ops.append(("set_avps", ()))
            ops += [("set_avps", (x,)) for x in letters]
            if pairs:
                ops += [("set_avps", (x, y)) for x in letters for y in letters if x != y]
            else:
                ops += [("set_avps", ("A", "A2")), ("set_avps", ("A2", "A")), ("set_avps", ("B", "A"))]
        if self.kind == "loaded-empty":
            ops += [("set_avps", ()), ("set_avps", ("A",)), ("set_avps", ("B", "A"))]
        if self.kind in ("empty", "dwr", "loaded-empty", "loaded-dwr"):
            ops += [("setitem", i, x) for i in range(len(lst)) for x in free]
            for old in names:
                for new in new_keys + names[:1]:
                    ops.append(("update_key", old, new))
        ops += [("update_avps", k, v) for k, v in updates]
        if self.kind == "ulr":
            ops += [("update_avps", "session_id", "zz;9;9")]
        ops.append(("refresh",))
        return ops

    def step(self, history, op):
        st = self.build(history)
        before_list, before_view = list(st.lst()), dict(st.view())
        for o in before_list:
            st.label(o)
        outcome, exc = apply_op(st, op)
        if outcome == "crash":
            # the statement constrains the state after every operation, not which exception a refused
            # operation raises: a raising operation is a no-op for the reference, coherence is still checked
            outcome = "rejected"
        # the message must still be a message: its own attributes (_avps, _header) untouched by the operation
        from bromelia.base import DiameterHeader
        own = st.msg.__dict__
        if not isinstance(own.get("_avps"), list) or not isinstance(own.get("_header"), DiameterHeader):
            st.broken = True
            return st, [(f"C11:{op[0]}:container-destroyed",
                         f"after {op} the message's own attribute(s) are overwritten: _avps is {type(own.get('_avps')).__name__}, "
                         f"_header is {type(own.get('_header')).__name__}")]
        errs = check_invariants(st, before_list, before_view, op, outcome)
        return st, errs

    def canon(self, st):
        if getattr(st, "broken", False):
            return ("broken",)
        lst, view = st.lst(), st.view()
        labs = tuple(st.label(o) for o in lst)
        pos = {id(o): i for i, o in enumerate(lst)}
        names = tuple(sorted((k, pos.get(id(o), -1)) for k, o in view.items()))
        try:
            delta = st.msg.header.get_length() - len(st.msg.dump())
        except BaseException:  # noqa
            delta = None
        return (labs, names, delta, st.msg._loaded)


def run(report, tier, seed):
    cap = 3 if tier == "quick" else 4
    states = transitions = 0
    for pname in sorted(PROFILES[tier]):
        kind = pname[:-1] if pname.endswith("4") else pname
        model = ContainerModel(kind, None, PROFILES[tier][pname])
        res = hist.bfs_parallel(model, report, core.jobs(), max_states=300000,
                                budget_s=120 if tier == "quick" else 1500)
        states += res["states"]
        transitions += res["transitions"]
        report.add(evaluations=res["transitions"], distinct=res["states"])
        report.count(f"states_{pname}", res["states"])
        report.count(f"transitions_{pname}", res["transitions"])
        report.count(f"violating_transitions_{pname}", res["violating_transitions"])
        report.count(f"max_depth_{pname}", res["max_depth"])
        if not res["closed"]:
            report.cap(f"{pname}: search not closed")
    report.sample({"object": "empty", "history": [["extend", "A", "A2"], ["pop", "user_name_avp__1"]], "list_cap": cap})
    report.sample({"object": "dwr", "history": [["append", "U"], ["setitem", 0, "S"], ["update_avps", "origin_host", "x.example"]]})
    return {"_level_keys": {"states": states, "transitions": transitions,
                            "traces_validated_against_impl": transitions},
            "note": "every transition is the real operation executed on fresh real objects (the history is "
                    "replayed from the constructor), so every explored trace is validated against the "
                    "implementation by construction"}


def replay(w):
    history = [tuple(tuple(x) if isinstance(x, list) else x for x in op) for op in w["history"]]
    worst = False
    for kind in ("empty", "dwr", "ulr", "loaded-empty", "loaded-dwr"):
        model = ContainerModel(kind, 6)
        try:
            st, errs = model.step(tuple(history[:-1]), history[-1])
        except BaseException as e:  # noqa
            continue
        if errs:
            print(f"[{kind}] after {history}:")
            for sig, text in errs:
                print("  ", sig, "|", text)
            worst = True
    return worst
